// vyukov_hash_map::iterator move assignment onto an iterator that holds a bucket lock: the lock is never released
#include <xenium/vyukov_hash_map.hpp>
#include <xenium/reclamation/generic_epoch_based.hpp>
#include <csignal>
#include <cstdio>
#include <unistd.h>
using Map = xenium::vyukov_hash_map<int, int, xenium::policy::reclaimer<xenium::reclamation::epoch_based<>>>;
static void on_alarm(int) { const char m[] = "FAIL: erase(1) does not return: the bucket lock of the overwritten iterator was never released\n"; (void)!write(1, m, sizeof m - 1); _exit(1); }
int main() {
  signal(SIGALRM, on_alarm);
  Map map(8);
  map.emplace(1, 10);
  {
    auto it = map.begin();   // holds the lock of the bucket of key 1
    it = map.end();          // "done with it": assign the past-the-end iterator
  }                          // iterator destroyed
  alarm(5);
  bool ok = map.erase(1);
  printf("%s\n", ok ? "PASS: map usable after the iterator is gone" : "FAIL: erase(1) returned false");
  return ok ? 0 : 1;
}
