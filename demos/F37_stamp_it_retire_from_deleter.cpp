// stamp_it: a deleter that retires a further object re-enters process_local_nodes while it iterates the thread's
// retire list; the node being deleted is deleted again. Two threads, fully sequenced by flags.
#include <xenium/reclamation/stamp_it.hpp>
#include <atomic>
#include <cstdio>
#include <unistd.h>
#include <thread>
using R = xenium::reclamation::stamp_it;
static int destroyed[64], violations = 0;
struct Node : R::enable_concurrent_ptr<Node> {
  int id;
  Node* child = nullptr;
  explicit Node(int i) : id(i) {}
  ~Node() {
    if (destroyed[id]++) { printf("FAIL: object %d destroyed twice\n", id); fflush(stdout); _exit(1); }
    if (child) { R::concurrent_ptr<Node>::guard_ptr g{R::concurrent_ptr<Node>::marked_ptr(child)}; g.reclaim(); }
  }
};
using CP = R::concurrent_ptr<Node>;
int main() {
  CP cell;
  std::atomic<int> phase{0};
  auto wait = [&](int p) { while (phase.load() < p) std::this_thread::yield(); };
  // C: in a region from the start until phase 2 (older than A's first region: the parent cannot be reclaimed yet)
  std::thread c([&] { R::region_guard rg; phase.store(1); wait(2); });
  // B: enters after the parent was retired (phase 3), leaves in phase 7 as the oldest thread -> the tail stamp passes the parent's stamp
  std::thread b([&] { wait(3); { R::region_guard rg; phase.store(4); wait(7); } phase.store(8); });
  // D: enters after B (phase 4) and stays until the end: it is older than A's second region
  std::thread d([&] { wait(4); R::region_guard rg; phase.store(5); wait(10); });
  wait(1);
  {
    R::region_guard r1;
    Node* parent = new Node(0);
    parent->child = new Node(1);
    cell.store(parent, std::memory_order_release);
    CP::guard_ptr g;
    g.acquire(cell);
    cell.store(nullptr, std::memory_order_release);
    g.reclaim();               // retired while the older thread C is still in its region: stays in A's local list
  }
  phase.store(2); c.join();    // C leaves
  phase.store(3);              // B enters, then D
  wait(5);
  {
    R::region_guard r2;        // A's second region: newer than B and D
    phase.store(7); wait(8);   // B (the oldest) leaves: the tail stamp moves past the parent's stamp; D is the tail now
  }                            // A leaves, it is not the tail -> process_local_nodes deletes the parent -> ~parent retires the child
  phase.store(10); b.join(); d.join();
  for (int i = 0; i < 20; i++) { R::region_guard rg; }
  int leaked = (destroyed[0] == 0) + (destroyed[1] == 0);
  if (leaked) { printf("FAIL: %d retired object(s) never destroyed\n", leaked); violations++; }
  if (!violations) printf("PASS: parent and child destroyed exactly once\n");
  return violations ? 1 : 0;
}
