// A deleter that retires a further object (parent owns a child; the parent's destructor hands the child to the same
// reclaimer). Every retired object has to be destroyed exactly once (C02). Single-threaded.
//   g++ -std=c++17 -O1 -g -pthread -I /repo demo.cpp -DRECL=1 (quiescent_state_based) / -DRECL=2 (stamp_it)
#include <xenium/reclamation/quiescent_state_based.hpp>
#include <xenium/reclamation/stamp_it.hpp>
#include <cstdio>
#include <unistd.h>
#include <cstdlib>
#if RECL == 1
using R = xenium::reclamation::quiescent_state_based;
const char* name = "quiescent_state_based";
#else
using R = xenium::reclamation::stamp_it;
const char* name = "stamp_it";
#endif
static int constructed = 0, destroyed[256], violations = 0;
struct Node : R::enable_concurrent_ptr<Node> {
  int id;
  Node* child = nullptr;
  explicit Node(int i) : id(i) { constructed++; }
  ~Node() {
    if (destroyed[id]++) { printf("FAIL: object %d destroyed twice\n", id); fflush(stdout); _exit(1); }
    if (child) { R::concurrent_ptr<Node>::guard_ptr g{R::concurrent_ptr<Node>::marked_ptr(child)}; g.reclaim(); }
  }
};
using CP = R::concurrent_ptr<Node>;
int main() {
  CP cell;
  int next = 0;
  for (int round = 0; round < 12; round++) {
    R::region_guard outer; // the retired parents stay in the thread's local list until this region is left
    for (int j = 0; j < 3; j++) {
      Node* parent = new Node(next++);
      parent->child = new Node(next++);
      cell.store(parent, std::memory_order_release);
      CP::guard_ptr g;
      g.acquire(cell);
      cell.store(nullptr, std::memory_order_release);
      g.reclaim();
    }
  }
  for (int round = 0; round < 12; round++) {
    Node* parent = new Node(next++);
    parent->child = new Node(next++);
    cell.store(parent, std::memory_order_release);
    CP::guard_ptr g;
    g.acquire(cell);
    cell.store(nullptr, std::memory_order_release);
    g.reclaim(); // retire the parent; its destructor retires the child
    for (int i = 0; i < 8; i++) { R::region_guard rg; } // quiescent states / region exits: reclamation points
  }
  for (int i = 0; i < 40; i++) { R::region_guard rg; }
  int leaked = 0;
  for (int i = 0; i < next; i++) if (destroyed[i] == 0) leaked++;
  if (leaked) { printf("FAIL: %d of %d retired objects were never destroyed (%s)\n", leaked, next, name); violations++; }
  if (!violations) printf("PASS: %d objects retired (half of them from inside a deleter), each destroyed exactly once (%s)\n", next, name);
  return violations ? 1 : 0;
}
