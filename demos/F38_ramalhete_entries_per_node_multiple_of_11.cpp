// ramalhete_queue with entries_per_node that is a multiple of the internal index step (11): single-threaded FIFO check
#include <xenium/ramalhete_queue.hpp>
#include <xenium/reclamation/generic_epoch_based.hpp>
#include <cstdio>
template <unsigned N>
int run() {
  xenium::ramalhete_queue<int*, xenium::policy::reclaimer<xenium::reclamation::epoch_based<>>, xenium::policy::entries_per_node<N>> q;
  static int v[64];
  int bad = 0;
  for (int i = 0; i < 40; i++) q.push(&v[i]);
  for (int i = 0; i < 40; i++) {
    int* p = nullptr;
    if (!q.try_pop(p)) { printf("FAIL entries_per_node=%u: pop %d reports empty although %d values are stored\n", N, i, 40 - i); return 1; }
    if (p != &v[i]) { if (!bad) printf("FAIL entries_per_node=%u: pop %d returned value %ld instead of %d\n", N, i, (long)(p - v), i); bad++; }
  }
  int* p = nullptr;
  if (q.try_pop(p)) { printf("FAIL entries_per_node=%u: pop succeeds on an empty queue\n", N); bad++; }
  return bad ? 1 : 0;
}
int main() {
  int r = 0;
  r |= run<3>(); r |= run<8>(); r |= run<10>(); r |= run<11>(); r |= run<22>(); r |= run<33>(); r |= run<143>();
  puts(r ? "FAIL" : "PASS: FIFO order for entries_per_node 3, 8, 10, 11, 22, 33, 143");
  return r;
}
