// C15, data path of the first clause: marked_ptr / concurrent_ptr round trips for several mark widths.
// This is *not* a simulation target (a pure function of its input, DESIGN.md §8): the widths and values below are
// sampled, not enumerated, and nothing here depends on a schedule. It is exercised inside C15 runs so that a change to
// the packing of marked_ptr (upper/lower bit split, rotate, masks) or to concurrent_ptr's load/store/CAS plumbing
// does not go unnoticed by the check that claims C15.
#pragma once
#include "xsim.hpp"
#include <atomic>
#include <cstdint>

namespace markalg {

template <class R, unsigned N>
struct Dummy : R::template enable_concurrent_ptr<Dummy<R, N>, N> {
  char c;
};

inline uint64_t mix(uint64_t& s) {
  s += 0x9e3779b97f4a7c15ULL;
  uint64_t z = s;
  z = (z ^ (z >> 30)) * 0xbf58476d1ce4e5b9ULL;
  z = (z ^ (z >> 27)) * 0x94d049bb133111ebULL;
  return z ^ (z >> 31);
}

template <class R, unsigned N>
void run_width(uint64_t seed) {
  using T = Dummy<R, N>;
  using CP = typename R::template concurrent_ptr<T, N>;
  using MP = typename CP::marked_ptr;
  constexpr unsigned lower = N > 16 ? N - 16 : 0;
  constexpr uint64_t mask = N == 0 ? 0 : (N >= 64 ? ~0ull : ((1ull << N) - 1));
  // canonical user-space addresses with the low `lower` bits clear; never dereferenced
  const uintptr_t base = (uintptr_t)0x0000100000000000ULL + ((uintptr_t)(mix(seed) & 0xfff) << 20);
  T* ptrs[5];
  ptrs[0] = nullptr;
  for (int i = 1; i < 5; i++) ptrs[i] = reinterpret_cast<T*>(base + ((uintptr_t)i << (lower < 4 ? 4 : lower)));
  ptrs[4] = reinterpret_cast<T*>(((uintptr_t)0x00007fffffff0000ULL >> lower) << lower); // highest bits of a 47 bit address set
  uint64_t marks[8] = {0, 1, mask, mask >> 1, 0x5555555555555555ULL & mask, 0xaaaaaaaaaaaaaaaaULL & mask, mix(seed) & mask, mix(seed) & mask};
  CP* cell = new CP();
  auto make = [](T* p, uint64_t m) {
    if constexpr (N == 0) {
      (void)m;
      return MP(p);
    } else {
      return MP(p, (uintptr_t)m);
    }
  };
  for (T* p : ptrs)
    for (uint64_t mk : marks) {
      if (N == 0) mk = 0;
      MP m = make(p, mk);
      if (m.get() != p)
        xsim::fail("marked-ptr-algebra", "marked_ptr<T,%u>(%p, 0x%lx).get() returned %p", N, (void*)p, (unsigned long)mk, (void*)m.get());
      if ((uint64_t)m.mark() != mk)
        xsim::fail("marked-ptr-algebra", "marked_ptr<T,%u>(%p, 0x%lx).mark() returned 0x%lx", N, (void*)p, (unsigned long)mk, (unsigned long)m.mark());
      MP same = make(p, mk);
      if (!(m == same) || (m != same)) xsim::fail("marked-ptr-algebra", "marked_ptr<T,%u>: equal (pointer, mark) pairs compare unequal", N);
      if (static_cast<bool>(m) != (p != nullptr || mk != 0)) xsim::fail("marked-ptr-algebra", "marked_ptr<T,%u>: operator bool wrong for (%p, 0x%lx)", N, (void*)p, (unsigned long)mk);
      if (N > 0) {
        for (unsigned bit = 0; bit < N; bit += (N > 8 ? 5 : 1)) {
          MP other = make(p, mk ^ (1ull << bit));
          if (other == m) xsim::fail("marked-ptr-algebra", "marked_ptr<T,%u>: marks differing in bit %u compare equal", N, bit);
          if (other.get() != p) xsim::fail("marked-ptr-algebra", "marked_ptr<T,%u>: mark bit %u leaks into the pointer", N, bit);
        }
      }
      T* q = p == ptrs[1] ? ptrs[2] : ptrs[1];
      MP otherp = make(q, mk);
      if (otherp == m) xsim::fail("marked-ptr-algebra", "marked_ptr<T,%u>: different pointers with the same mark compare equal", N);
      if ((uint64_t)otherp.mark() != mk) xsim::fail("marked-ptr-algebra", "marked_ptr<T,%u>: the pointer leaks into the mark", N);
      // concurrent_ptr as an atomic marked_ptr
      cell->store(m, std::memory_order_relaxed);
      MP l = cell->load(std::memory_order_relaxed);
      if (!(l == m) || l.get() != p || (uint64_t)l.mark() != mk) xsim::fail("marked-ptr-algebra", "concurrent_ptr<T,%u>: load does not return the stored value", N);
      MP expected = m;
      if (!cell->compare_exchange_strong(expected, otherp, std::memory_order_relaxed, std::memory_order_relaxed))
        xsim::fail("marked-ptr-algebra", "concurrent_ptr<T,%u>: compare_exchange_strong with the current value failed", N);
      expected = m;
      if (cell->compare_exchange_strong(expected, m, std::memory_order_relaxed, std::memory_order_relaxed))
        xsim::fail("marked-ptr-algebra", "concurrent_ptr<T,%u>: compare_exchange_strong with a stale value succeeded", N);
      if (!(expected == otherp)) xsim::fail("marked-ptr-algebra", "concurrent_ptr<T,%u>: failed compare_exchange does not report the current value", N);
      MP l2 = cell->load(std::memory_order_acquire);
      if (!(l2 == otherp)) xsim::fail("marked-ptr-algebra", "concurrent_ptr<T,%u>: value after compare_exchange is wrong", N);
    }
  delete cell;
}

// widths: none, the usual one or two bits, and both sides of the upper/lower split at 16 bits, up to the maximum of 32
template <class R>
void run(int selector, uint64_t seed) {
  switch (((selector % 7) + 7) % 7) {
    case 0: run_width<R, 0>(seed); break;
    case 1: run_width<R, 1>(seed); break;
    case 2: run_width<R, 2>(seed); break;
    case 3: run_width<R, 16>(seed); break;
    case 4: run_width<R, 17>(seed); break;
    case 5: run_width<R, 18>(seed); break;
    default: run_width<R, 32>(seed); break;
  }
}
} // namespace markalg
