// C05 — bounded FIFO queues: vyukov_bounded_queue (strong + weak ops), nikolaev_bounded_queue
#include "common.hpp"
#include "lincheck.hpp"
#include <deque>
#include <optional>
#include <string>
#include <xenium/nikolaev_bounded_queue.hpp>
#include <xenium/vyukov_bounded_queue.hpp>

using namespace xsim;
namespace hx_bqueues {
enum { OP_PUSH = 1, OP_PUSH_S, OP_PUSH_W, OP_POP, OP_POP_S, OP_POP_W, OP_POP_OPT, OP_DRAIN, OP_FILL };

struct IBQ {
  virtual ~IBQ() = default;
  virtual bool push(int kind, int v) = 0;
  virtual bool pop(int kind, int& v) = 0;
  virtual size_t capacity() const = 0;
};

// element conversion: int, or a std::string (a type with a destructor and a move that is not a copy: an element that is
// destroyed or moved once too often comes out empty / as garbage and decodes to 0, which nobody pushed)
template <class T>
struct Elem;
template <>
struct Elem<int> {
  static int enc(int v) { return v; }
  static int dec(int v) { return v; }
};
template <>
struct Elem<std::string> {
  static std::string enc(int v) { return std::string("element-with-a-heap-buffer-#") + std::to_string(v); }
  static int dec(const std::string& s) {
    size_t p = s.rfind('#');
    if (p == std::string::npos || s.compare(0, p + 1, "element-with-a-heap-buffer-#") != 0) return 0;
    return atoi(s.c_str() + p + 1);
  }
};

template <bool W, class T = int>
struct VyQ : IBQ {
  xenium::vyukov_bounded_queue<T, xenium::policy::default_to_weak<W>> q;
  size_t cap;
  explicit VyQ(size_t n) : q(n), cap(n) {}
  bool push(int kind, int v) override {
    switch (kind) {
      case OP_PUSH_S: return q.try_push_strong(Elem<T>::enc(v));
      case OP_PUSH_W: return q.try_push_weak(Elem<T>::enc(v));
      default: return q.try_push(Elem<T>::enc(v));
    }
  }
  bool pop(int kind, int& v) override {
    T e{};
    bool ok;
    switch (kind) {
      case OP_POP_S: ok = q.try_pop_strong(e); break;
      case OP_POP_W: ok = q.try_pop_weak(e); break;
      case OP_POP_OPT: {
        auto r = q.pop();
        if (r) v = Elem<T>::dec(*r);
        return r.has_value();
      }
      default: ok = q.try_pop(e);
    }
    if (ok) v = Elem<T>::dec(e);
    return ok;
  }
  size_t capacity() const override { return cap; }
};
template <unsigned R, class T = int>
struct NikQ : IBQ {
  xenium::nikolaev_bounded_queue<T, xenium::policy::pop_retries<R>> q;
  explicit NikQ(size_t n) : q(n) {}
  bool push(int, int v) override { return q.try_push(Elem<T>::enc(v)); }
  bool pop(int kind, int& v) override {
    if (kind == OP_POP_OPT) {
      auto r = q.pop();
      if (r) v = Elem<T>::dec(*r);
      return r.has_value();
    }
    T e{};
    bool ok = q.try_pop(e);
    if (ok) v = Elem<T>::dec(e);
    return ok;
  }
  size_t capacity() const override { return q.capacity(); }
};

struct Cfg {
  const char* name;
  bool vyukov;
  bool weak_default;
  IBQ* (*make)(size_t);
};
template <class Q>
IBQ* mk(size_t n) {
  return new Q(n);
}
const Cfg cfgs[] = {
  {"vyukov", true, false, mk<VyQ<false>>},
  {"vyukov_default_weak", true, true, mk<VyQ<true>>},
  {"nikolaev_bounded_r0", false, false, mk<NikQ<0>>},
  {"nikolaev_bounded_r1", false, false, mk<NikQ<1>>},
  {"vyukov<string>", true, false, mk<VyQ<false, std::string>>},
  {"nikolaev_bounded_r0<string>", false, false, mk<NikQ<0, std::string>>},
};

struct BModel {
  using State = std::deque<int>;
  size_t cap = 0;
  bool vyukov = false;
  bool weak_default = false;
  const History* h = nullptr;
  std::vector<int> overlap; // per history index: number of other operations overlapping it
  static bool is_push(int k) { return k == OP_PUSH || k == OP_PUSH_S || k == OP_PUSH_W || k == OP_FILL; }
  bool weak(int k) const { return k == OP_PUSH_W || k == OP_POP_W || (weak_default && (k == OP_PUSH || k == OP_POP || k == OP_POP_OPT)); }
  bool step(State& s, const OpRec& o) const {
    if (is_push(o.kind)) {
      if (o.status == 1) {
        if (s.size() >= cap) return false;
        s.push_back((int)o.a);
        return true;
      }
      if (vyukov) {
        if (weak(o.kind)) return true; // weak operations may fail spuriously
        return s.size() >= cap;
      }
      // nikolaev: every other operation in progress counts as occupying one slot
      int ov = overlap[&o - h->ops];
      return s.size() + (size_t)ov >= cap;
    }
    if (o.status == 1) {
      if (s.empty() || s.front() != (int)o.r0) return false;
      s.pop_front();
      return true;
    }
    if (vyukov && weak(o.kind)) return true;
    return s.empty();
  }
  bool step_pending(State& s, const OpRec& o) const {
    if (is_push(o.kind)) {
      if (s.size() < cap) s.push_back((int)o.a);
      return true;
    }
    if (!s.empty()) s.pop_front();
    return true;
  }
  void key(const State& s, std::string& k) const {
    for (int v : s) k.push_back((char)v);
  }
};

class BQHarness : public Harness {
  IBQ* q = nullptr;

public:
  const char* name() const override { return "bqueues"; }
  int num_configs() const override { return (int)(sizeof(cfgs) / sizeof(cfgs[0])); }
  const char* config_name(int i) const override { return cfgs[i].name; }
  const char* op_name(int k) const override {
    static const char* n[] = {"?", "try_push", "try_push_strong", "try_push_weak", "try_pop", "try_pop_strong", "try_pop_weak", "pop", "drain_pop", "fill_push"};
    return k >= 1 && k <= 9 ? n[k] : "?";
  }
  void generate(GenCtx& g, Program& p) override {
    p.config = (int)g.rng.below(sizeof(cfgs) / sizeof(cfgs[0]));
    const Cfg& c = cfgs[p.config];
    int cap = c.vyukov ? (g.rng.chance(60) ? 2 : 4) : g.rng.range(1, 5);
    int real_cap = 1;
    while (real_cap < cap) real_cap *= 2;
    // sequential prefix by the setup thread: push/pop pairs advancing the ring by several wrap-arounds,
    // then leave 0..cap elements inside
    int prefix_pairs = (int)g.rng.below(3 * real_cap + 1);
    int fill = (int)g.rng.below(real_cap + 1);
    p.params = {cap, prefix_pairs, fill};
    int nt = g.rng.range(2, (g.tier || g.rng.chance(20)) ? 4 : 3);
    int maxops = g.tier ? 8 : 6;
    int next = prefix_pairs + fill + 1;
    p.threads.resize(nt);
    int mix = (int)g.rng.below(3);
    for (int t = 0; t < nt; t++) {
      int n = g.rng.range(1, maxops);
      for (int i = 0; i < n; i++) {
        bool push = mix == 1 ? (t % 2 == 0) : g.rng.chance(mix == 2 ? 65 : 50);
        if (push && next < 120) {
          int k = OP_PUSH;
          if (c.vyukov) k = (int[]){OP_PUSH, OP_PUSH_S, OP_PUSH_W}[g.rng.below(3)];
          p.threads[t].ops.push_back(Op{k, next++, 0, 0});
        } else {
          int k = g.rng.chance(50) ? OP_POP : OP_POP_OPT;
          if (c.vyukov) k = (int[]){OP_POP, OP_POP_S, OP_POP_W, OP_POP_OPT}[g.rng.below(4)];
          p.threads[t].ops.push_back(Op{k, 0, 0, 0});
        }
      }
    }
  }
  bool lockfree(int cfg, int kind) const {
    if (!cfgs[cfg].vyukov) return true;
    if (kind == OP_PUSH_W || kind == OP_POP_W) return true;
    if (cfgs[cfg].weak_default && (kind == OP_PUSH || kind == OP_POP || kind == OP_POP_OPT)) return true;
    return false;
  }
  int cur = 0;
  void do_push(int kind, int v) {
    op_begin(kind, v, 0, 0, lockfree(cur, kind) ? OPF_LOCKFREE : 0);
    bool ok = q->push(kind, v);
    op_end(ok);
  }
  bool do_pop(int kind) {
    int v = 0;
    op_begin(kind, 0, 0, 0, lockfree(cur, kind) ? OPF_LOCKFREE : 0);
    bool ok = q->pop(kind, v);
    op_end(ok, v);
    return ok;
  }
  void setup(const Program& p) override {
    cur = p.config;
    q = cfgs[p.config].make((size_t)p.params[0]);
    int v = 1;
    for (int i = 0; i < p.params[1]; i++) {
      do_push(OP_FILL, v++);
      do_pop(OP_POP_S);
    }
    for (int i = 0; i < p.params[2]; i++) do_push(OP_FILL, v++);
  }
  void exec(int, const Op& op) override {
    if (BModel::is_push(op.kind))
      do_push(op.kind, (int)op.a);
    else
      do_pop(op.kind);
  }
  void teardown(int) override {
    // capacity probe on the quiescent queue: it must accept exactly capacity - size further elements
    int v = 200;
    int accepted = 0;
    for (int i = 0; i < 12; i++) {
      op_begin(OP_FILL, v, 0, 0, 0);
      bool ok = q->push(cfgs[cur].vyukov ? OP_PUSH_S : OP_PUSH, v);
      op_end(ok);
      v++;
      if (!ok) break;
      accepted++;
    }
    while (do_pop(cfgs[cur].vyukov ? OP_POP_S : OP_POP)) {
    }
    delete q;
    q = nullptr;
  }
  void check(CheckCtx& c) override {
    const Cfg& cf = cfgs[c.prog.config];
    BModel m;
    size_t cap = 1;
    while (cap < (size_t)c.prog.params[0]) cap *= 2;
    m.cap = cap;
    m.vyukov = cf.vyukov;
    m.weak_default = cf.weak_default;
    m.h = &c.hist;
    m.overlap.assign(c.hist.n, 0);
    std::vector<int> ops;
    uint64_t sh = 1469598103934665603ULL;
    int pushed[256] = {0}, popped[256] = {0};
    for (int i = 0; i < c.hist.n; i++) {
      const OpRec& o = c.hist.ops[i];
      if (o.status < 0) continue;
      // Weak runs (C03): "full"/"empty" answers are computed from relaxed loads of the two position counters
      // and may legitimately be stale in a store-buffering shape (T1: pop, sees no push; T2: push, sees no
      // pop). C03 promises conservation and delivery order there, not exact full/empty answers, so failed
      // operations are not part of the linearization in weak runs.
      if (c.hist.weak && o.status == 0) continue;
      ops.push_back(i);
      sh = (sh ^ (uint64_t)(o.kind * 31 + o.status * 7 + o.r0)) * 1099511628211ULL;
      if (BModel::is_push(o.kind)) {
        if (o.status == 1) pushed[o.a & 255]++;
      } else if (o.status == 1) {
        if (o.r0 <= 0 || o.r0 > 255) {
          c.fail("invented-value", "pop returned %ld which was never pushed", (long)o.r0);
          return;
        }
        popped[o.r0]++;
      }
    }
    for (int i : ops)
      for (int j : ops)
        if (i != j && !c.hist.precedes(c.hist.ops[i], c.hist.ops[j]) && !c.hist.precedes(c.hist.ops[j], c.hist.ops[i])) m.overlap[i]++;
    for (int v = 0; v < 256; v++) {
      if (popped[v] > 1) return c.fail("duplicated-element", "value %d was returned by %d pops", v, popped[v]);
      if (popped[v] && !pushed[v]) return c.fail("invented-value", "value %d popped but never successfully pushed", v);
      if (pushed[v] && !popped[v]) return c.fail("lost-element", "value %d was accepted but neither popped nor found by the final drain", v);
    }
    check_linearizable(c, *this, m, BModel::State(), ops, "not-linearizable");
    c.state_hash = sh;
  }
};
BQHarness h;
struct Reg { Reg() { register_harness(&h); xsim::fn_probe("nikolaev_scq: catchup executed", "7catchup"); xsim::fn_pair_probe("bounded queues: try_push overlaps try_pop", "8try_push", "7try_pop"); xsim::fn_pair_probe("bounded queues: two try_pop overlap", "7try_pop", "7try_pop"); } } reg;
} // namespace
XSIM_MAIN()
