// C14 — seqlock::load returns exactly some stored value, never torn or truncated
#include "common.hpp"
#include "lincheck.hpp"
#include <xenium/seqlock.hpp>

using namespace xsim;
namespace hx_seqlock {
enum { OP_STORE = 1, OP_UPDATE = 2, OP_LOAD = 3 };

template <size_t N, size_t A>
struct alignas(A) Blob {
  unsigned char b[N];
};
static inline unsigned char pat(int id, size_t i) { return (unsigned char)((id * 37 + (int)i * 101 + (id >> 5) + 7) & 0xff); }
template <class B>
B encode(int id) {
  B v;
  for (size_t i = 0; i < sizeof(v.b); i++) v.b[i] = pat(id, i);
  v.b[0] = (unsigned char)(id & 0xff);
  v.b[1] = (unsigned char)((id >> 8) & 0xff);
  return v;
}
template <class B>
int decode(const B& v, const char* what) {
  int id = v.b[0] | (v.b[1] << 8);
  for (size_t i = 2; i < sizeof(v.b); i++)
    if (v.b[i] != pat(id, i)) {
      char hex[3 * 48 + 1];
      size_t n = 0;
      for (size_t k = 0; k < sizeof(v.b) && k < 48; k++) n += (size_t)snprintf(hex + n, sizeof hex - n, "%02x ", v.b[k]);
      xsim::fail("torn-value", "%s returned a value that is not any stored value: byte %zu of %zu is wrong for value id %d; bytes: %s", what, i,
                 sizeof(v.b), id, hex);
    }
  return id;
}

struct ISL {
  virtual ~ISL() = default;
  virtual void store(int id) = 0;
  virtual int update() = 0; // returns new id
  virtual int update_noop() = 0; // update whose functor leaves the value as it is (a conditional update that does not fire); returns the id seen
  virtual int load() = 0;
};
template <class B, unsigned S>
struct SL : ISL {
  xenium::seqlock<B, xenium::policy::slots<S>> s;
  SL() : s(encode<B>(1)) {}
  void store(int id) override { s.store(encode<B>(id)); }
  int update() override {
    int nid = 0;
    s.update([&nid](B& v) {
      int old = decode(v, "update (functor argument)");
      nid = (old + 1000) % 60000;
      v = encode<B>(nid);
    });
    return nid;
  }
  int update_noop() override {
    int seen = 0;
    s.update([&seen](B& v) { seen = decode(v, "update (functor argument)"); });
    return seen;
  }
  int load() override { return decode(s.load(), "load"); }
};
struct Cfg {
  const char* name;
  unsigned slots;
  ISL* (*make)();
};
template <class W> ISL* mk() { return new W(); }
#define C(N, A, S) {"seqlock<" #N "/" #A ">/slots" #S, S, mk<SL<Blob<N, A>, S>>}
const Cfg cfgs[] = {
  C(16, 8, 1), C(16, 8, 2), C(24, 8, 3), C(40, 8, 4), C(24, 8, 8), C(40, 8, 1), C(12, 4, 1), C(12, 4, 2), C(20, 4, 3),
  C(20, 4, 8), C(10, 2, 2), C(10, 2, 4), C(9, 1, 1), C(9, 1, 3),
};
constexpr int NCFG = sizeof(cfgs) / sizeof(cfgs[0]);

struct RModel {
  using State = int;
  bool step(State& s, const OpRec& o) const {
    switch (o.kind) {
      case OP_STORE: s = (int)o.a; return true;
      case OP_UPDATE:
        if (o.a == 1) return s == (int)o.r0; // no-op functor: sees the current value, leaves it
        if ((s + 1000) % 60000 != (int)o.r0) return false;
        s = (int)o.r0;
        return true;
      default: return s == (int)o.r0;
    }
  }
  bool step_pending(State& s, const OpRec& o) const {
    if (o.kind == OP_STORE) s = (int)o.a;
    if (o.kind == OP_UPDATE && o.a != 1) s = (s + 1000) % 60000;
    return true;
  }
  void key(const State& s, std::string& k) const { k.append((const char*)&s, 4); }
};

class SHarness : public Harness {
  ISL* s = nullptr;
  int cur = 0;

public:
  const char* name() const override { return "seqlock"; }
  int num_configs() const override { return NCFG; }
  const char* config_name(int i) const override { return cfgs[i].name; }
  const char* op_name(int k) const override { return k == OP_STORE ? "store" : k == OP_UPDATE ? "update" : "load"; }
  void generate(GenCtx& g, Program& p) override {
    p.config = (int)g.rng.below(NCFG);
    int nw = g.rng.range(1, 2), nr = g.rng.range(1, g.tier ? 3 : 2);
    p.threads.resize(nw + nr);
    int id = 2;
    for (int t = 0; t < nw; t++) {
      int n = g.rng.range(1, g.tier ? 6 : 4);
      for (int i = 0; i < n; i++) {
        if (g.rng.chance(60)) p.threads[t].ops.push_back(Op{OP_STORE, id++, 0, 0});
        else p.threads[t].ops.push_back(Op{OP_UPDATE, g.rng.chance(30) ? 1 : 0, 0, 0});
      }
    }
    for (int t = nw; t < nw + nr; t++) {
      int n = g.rng.range(1, g.tier ? 6 : 4);
      for (int i = 0; i < n; i++) p.threads[t].ops.push_back(Op{OP_LOAD, 0, 0, 0});
    }
    g.opt.step_cap = 200000;
  }
  void setup(const Program& p) override {
    cur = p.config;
    s = cfgs[cur].make();
  }
  void exec(int, const Op& op) override {
    switch (op.kind) {
      case OP_STORE:
        op_begin(OP_STORE, op.a);
        s->store((int)op.a);
        op_end(1);
        break;
      case OP_UPDATE: {
        op_begin(OP_UPDATE, op.a);
        int n = op.a == 1 ? s->update_noop() : s->update();
        op_end(1, n);
        break;
      }
      default: {
        op_begin(OP_LOAD, 0, 0, 0, cfgs[cur].slots > 1 ? OPF_LOCKFREE : 0);
        int v = s->load();
        op_end(1, v);
      }
    }
  }
  void teardown(int) override {
    op_begin(OP_LOAD, 0, 0, 0, 0);
    int v = s->load();
    op_end(1, v);
    delete s;
    s = nullptr;
  }
  void check(CheckCtx& c) override {
    std::vector<int> ops;
    uint64_t sh = 1469598103934665603ULL;
    for (int i = 0; i < c.hist.n; i++) {
      const OpRec& o = c.hist.ops[i];
      if (o.status < 0) continue;
      ops.push_back(i);
      sh = (sh ^ (uint64_t)(o.kind * 31 + o.r0 + o.a * 7)) * 1099511628211ULL;
    }
    RModel m;
    check_linearizable(c, *this, m, 1, ops, "not-linearizable");
    c.state_hash = sh;
  }
};
SHarness h;
struct Reg { Reg() { register_harness(&h); xsim::fn_pair_probe("seqlock: store_data overlaps read_data", "10store_data", "9read_data"); xsim::fn_pair_probe("seqlock: two writers compete for the lock", "12acquire_lock", "12acquire_lock"); xsim::fn_pair_probe("seqlock: writer holds the lock while a reader loads", "12release_lock", "seqlock&4loadEv"); } } reg;
} // namespace hx_seqlock
XSIM_MAIN()
