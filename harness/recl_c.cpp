#include "recl_common.hpp"
using namespace rh;
namespace hx_recl_c {
#define CFG(NAME, TYPE, LFRC, CYC) {{NAME, LFRC, 0, false, CYC, false}, make_world<TYPE, LFRC>}
const ReclHarness::Cfg cfgs[] = {
  CFG("lfrc", rc::LFRC, true, 2), CFG("lfrc_tl2", rc::LFRC_TL2, true, 2), CFG("lfrc_pad", rc::LFRC_PAD, true, 2),
  CFG("qsbr", rc::QSBR, false, 12), CFG("stamp", rc::STAMP, false, 6),
};
ReclHarness h("recl_c", cfgs, sizeof(cfgs) / sizeof(cfgs[0]));
struct Reg { Reg() { xsim::register_harness(&h); xsim::probe_name(3, "destructor run by the reclaimer unlinked and retired a shared object"); hx::register_reclaimer_probes(); } } reg;
} // namespace
XSIM_MAIN()
