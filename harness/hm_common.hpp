// C08 / C09 — Harris-Michael list based set and hash map
#pragma once
#include "common.hpp"
#include "lincheck.hpp"
#include "reclaimers.hpp"
#include <functional>
#include <map>
#include <string>
#include <xenium/harris_michael_hash_map.hpp>
#include <xenium/harris_michael_list_based_set.hpp>

namespace hm {
using namespace xsim;

enum {
  OP_EMPLACE = 1,      // a=key b=value
  OP_EMPLACE_OR_GET,   // a=key b=value -> status inserted, r0 value seen
  OP_GET_OR_EMPLACE,
  OP_GET_OR_EMPLACE_LAZY,
  OP_INDEX,            // a=key -> r0 value (default constructed = 0 if absent)
  OP_ERASE,            // a=key
  OP_ERASE_IT,         // a=key: find + erase(iterator)   (recorded as OP_FIND + OP_ERASE_POS)
  OP_FIND,             // a=key -> status found, r0 value
  OP_CONTAINS,
  OP_ERASE_POS,        // recorded only: a=key b=value: erase(iterator to (key,value)); r0 = key of returned iterator or -1
  OP_TRAVERSE,         // program op only: a=erase position (-1 none); recorded as T_BEGIN/T_END notes + ops below
  OP_ITER_NEXT,        // recorded only: begin() or ++it of a traversal (b = traversal id)
  OP_YIELD = 40,       // note: a=key b=value c=traversal id
  OP_FINAL = 41,       // note: a=key b=value (final iteration)
  OP_T_BEGIN = 42,     // note: b=traversal id
  OP_T_END = 43,       // note: b=traversal id
};

struct Found {
  bool found;
  int val;
};
struct IHM {
  virtual ~IHM() = default;
  virtual bool emplace(int k, int v) = 0;
  virtual std::pair<bool, int> emplace_or_get(int k, int v) = 0;
  virtual std::pair<bool, int> get_or_emplace(int k, int v) = 0;
  virtual std::pair<bool, int> get_or_emplace_lazy(int k, int v) = 0;
  virtual int index(int k) = 0;
  virtual bool erase(int k) = 0;
  virtual Found find(int k) = 0;
  virtual bool contains(int k) = 0;
  // find + erase(iterator): f.found tells whether find succeeded; next_key = key the returned iterator refers to (-1 end)
  virtual Found erase_it(int k, int& next_key, void (*between)(int, int)) = 0;
  // full traversal; cb(key, value) returns true if the element should be erased through the iterator
  struct TCb {
    std::function<bool(int, int)> on_yield;   // returns true: erase this element through the iterator
    std::function<void()> pre_step, post_step; // around begin() / ++it
    std::function<void(int)> post_erase;       // after erase(iterator) returned (argument: key of the new position, -1 end)
    // 0: prefix ++, erase through a copy of the iterator; 1: postfix ++ everywhere and the `c.erase(it++)` idiom (the
    // erased position is the copy returned by it++, the traversal goes on with the already advanced iterator);
    // 2: postfix ++ keeping the returned copy one step behind: it must stay dereferenceable, keep referring to its
    // element and be advanceable on its own (seed RBi: the copy returned by it++ without its guard on the predecessor)
    int style = 0;
  };
  virtual void traverse(const TCb& cb) = 0;
  virtual bool is_map() const = 0;
};

template <class C, class KF, class VF>
inline void traverse_generic(C& c, const IHM::TCb& cb, KF kf, VF vf) {
  cb.pre_step();
  auto it = c.begin();
  cb.post_step();
  int steps = 0;
  while (it != c.end()) {
    int k = kf(it);
    int v = vf(it);
    if (cb.on_yield(k, v)) {
      if (cb.style == 1) {
        xsim::tag("iterator-copy-outlives-source");
        auto old = it++;
        auto nx = c.erase(std::move(old));
        cb.post_erase(nx == c.end() ? -1 : kf(nx));
      } else {
        auto copy = it; // copies of the iterator stay valid too
        it = c.erase(std::move(copy));
        cb.post_erase(it == c.end() ? -1 : kf(it));
      }
    } else if (cb.style == 2) {
      cb.pre_step();
      // run-time tag for the known finding D11 (hazard_pointer configurations only): it++ copies the guards of the
      // iterator and then releases the originals; a hazard pointer copied from a guard whose object is already retired
      // is not validated, so a scan that has passed the new slot but not yet the old one frees the node under the copy
      xsim::tag("iterator-copy-outlives-source");
      auto trail = it++;
      cb.post_step();
      if (trail == c.end() || kf(trail) != k || vf(trail) != v)
        xsim::fail("iterator-copy-changed", "the iterator returned by it++ no longer refers to the element (key %d) it was copied on", k);
      if (++steps & 1) {
        cb.pre_step();
        ++trail; // a copy is an iterator of its own: it can be advanced and lands on an element or on end()
        cb.post_step();
        if (trail != c.end()) (void)kf(trail);
      }
    } else {
      cb.pre_step();
      if (cb.style == 1)
        it++;
      else
        ++it;
      cb.post_step();
    }
  }
}

// ---- set adapter ---------------------------------------------------------------------------------
// Sets have no mapped value; the identity of the node (address of its key, stable while any guard or
// iterator refers to it) plays the role of the value so that incarnations of a key can be told apart.
inline int node_id(const void* p) { return (int)(((uintptr_t)p & 0xfffffff) >> 3); }

// SH > 0: the stored key is (k << SH) | low with varying low bits, for comparators that order by key >> SH only
// (a legal strict weak ordering whose equivalence classes are coarser than operator==, like a case-insensitive
// string comparison): equivalent keys are one key for the set, whichever representative is passed.
struct CoarseLess {
  bool operator()(int a, int b) const { return (a >> 1) < (b >> 1); }
};
template <class S, int SH = 0>
struct SetAd : IHM {
  S s;
  static int to(int k) {
    if (SH == 0) return k;
    static thread_local int cnt = 0;
    return (k << SH) | ((cnt++ + xsim::self()) & ((1 << SH) - 1));
  }
  static int from(int key) { return key >> SH; }
  bool emplace(int k, int) override { return s.emplace(to(k)); }
  std::pair<bool, int> emplace_or_get(int k, int) override {
    auto r = s.emplace_or_get(to(k));
    int key = from(*r.first);
    if (key != k) xsim::fail("wrong-element", "emplace_or_get(%d) returned an iterator to %d", k, key);
    return {r.second, node_id(&*r.first)};
  }
  std::pair<bool, int> get_or_emplace(int k, int v) override { return emplace_or_get(k, v); }
  std::pair<bool, int> get_or_emplace_lazy(int k, int v) override { return emplace_or_get(k, v); }
  int index(int k) override {
    emplace_or_get(k, 0);
    return 0;
  }
  bool erase(int k) override { return s.erase(to(k)); }
  Found find(int k) override {
    auto it = s.find(to(k));
    if (it == s.end()) return {false, 0};
    if (from(*it) != k) xsim::fail("wrong-element", "find(%d) returned an iterator to %d", k, from(*it));
    return {true, node_id(&*it)};
  }
  bool contains(int k) override { return s.contains(to(k)); }
  Found erase_it(int k, int& next_key, void (*between)(int, int)) override {
    auto it = s.find(to(k));
    if (it == s.end()) return {false, 0};
    int id = node_id(&*it);
    between(k, id);
    auto nx = s.erase(std::move(it));
    next_key = nx == s.end() ? -1 : from(*nx);
    return {true, id};
  }
  void traverse(const TCb& cb) override {
    traverse_generic(
      s, cb, [](const typename S::iterator& it) { return from(*it); }, [](const typename S::iterator& it) { return node_id(&*it); });
  }
  bool is_map() const override { return false; }
};

// ---- map adapter ---------------------------------------------------------------------------------
template <class K>
struct KeyConv;
template <>
struct KeyConv<int> {
  static int to(int k) { return k; }
  static int from(int k) { return k; }
};
template <>
struct KeyConv<std::string> {
  static std::string to(int k) { return std::string("key-") + (char)('a' + k); }
  static int from(const std::string& s) { return s.back() - 'a'; }
};

template <class M, class K>
struct MapAd : IHM {
  M m;
  using KC = KeyConv<K>;
  bool emplace(int k, int v) override { return m.emplace(KC::to(k), v); }
  std::pair<bool, int> ret(int k, std::pair<typename M::iterator, bool>&& r) {
    int key = KC::from(r.first->first);
    if (key != k) xsim::fail("wrong-element", "operation on key %d returned an iterator to key %d", k, key);
    return {r.second, r.first->second};
  }
  std::pair<bool, int> emplace_or_get(int k, int v) override { return ret(k, m.emplace_or_get(KC::to(k), v)); }
  std::pair<bool, int> get_or_emplace(int k, int v) override { return ret(k, m.get_or_emplace(KC::to(k), v)); }
  std::pair<bool, int> get_or_emplace_lazy(int k, int v) override {
    return ret(k, m.get_or_emplace_lazy(KC::to(k), [v]() { return v; }));
  }
  int index(int k) override {
    auto acc = m[KC::to(k)];
    return *acc;
  }
  bool erase(int k) override { return m.erase(KC::to(k)); }
  Found find(int k) override {
    auto it = m.find(KC::to(k));
    if (it == m.end()) return {false, 0};
    if (KC::from(it->first) != k) xsim::fail("wrong-element", "find(%d) returned an iterator to another key", k);
    return {true, it->second};
  }
  bool contains(int k) override { return m.contains(KC::to(k)); }
  Found erase_it(int k, int& next_key, void (*between)(int, int)) override {
    auto it = m.find(KC::to(k));
    if (it == m.end()) return {false, 0};
    int v = it->second;
    between(k, v);
    auto nx = m.erase(std::move(it));
    next_key = nx == m.end() ? -1 : KC::from(nx->first);
    return {true, v};
  }
  void traverse(const TCb& cb) override {
    traverse_generic(
      m, cb, [](const typename M::iterator& it) { return KC::from(it->first); }, [](const typename M::iterator& it) { return (int)it->second; });
  }
  bool is_map() const override { return true; }
};

struct Cfg {
  const char* name;
  IHM* (*make)();
};
template <class A>
IHM* mk() {
  return new A();
}

// sequential reference model: key -> value (sets use value 0)
struct MapModel {
  using State = std::map<int, int>;
  bool is_map = true;
  static constexpr int UNKNOWN = -1; // sets: identity of a node inserted through the bool returning emplace
  // does the stored value match an observed one? (binds an unknown identity)
  static bool match(int& stored, int seen) {
    if (stored == UNKNOWN) {
      stored = seen;
      return true;
    }
    return stored == seen;
  }
  bool step(State& s, const OpRec& o) const {
    auto it = s.find((int)o.a);
    bool present = it != s.end();
    switch (o.kind) {
      case OP_EMPLACE:
        if (o.status == 1) {
          if (present) return false;
          s[(int)o.a] = (int)o.b;
          return true;
        }
        return present;
      case OP_EMPLACE_OR_GET:
      case OP_GET_OR_EMPLACE:
      case OP_GET_OR_EMPLACE_LAZY:
        if (o.status == 1) {
          if (present) return false;
          s[(int)o.a] = is_map ? (int)o.b : (int)o.r0;
          return !is_map || o.r0 == o.b;
        }
        return present && match(it->second, (int)o.r0);
      case OP_INDEX:
        if (present) return it->second == (int)o.r0;
        s[(int)o.a] = 0;
        return o.r0 == 0;
      case OP_ERASE:
        if (o.status == 1) {
          if (!present) return false;
          s.erase(it);
          return true;
        }
        return !present;
      case OP_FIND:
        if (o.status == 1) return present && match(it->second, (int)o.r0);
        return !present;
      case OP_CONTAINS: return (o.status == 1) == present;
      case OP_ERASE_POS:
        // erase(iterator to (key,value)): removes that element if it is still there. An element of
        // unknown identity is bound the other way: treated as a different incarnation only if some
        // later observation contradicts - conservatively we take "it is this one" (the iterator was
        // obtained from the container, so the node was reachable at that time).
        if (present && it->second == (int)o.b) s.erase(it);
        return true;
    }
    return true;
  }
  bool step_pending(State& s, const OpRec& o) const {
    State c = s;
    OpRec t = o;
    t.status = 1;
    t.r0 = o.b;
    if (step(c, t)) s = c;
    return true;
  }
  void key(const State& s, std::string& k) const {
    for (auto& e : s) {
      k.push_back((char)e.first);
      k.append((const char*)&e.second, 4);
    }
  }
};

class HMHarness : public Harness {
  const char* nm;
  const Cfg* cfgs;
  int ncfg;
  IHM* m = nullptr;
  int nkeys = 4;
  int traversal_id = 0;

public:
  HMHarness(const char* n, const Cfg* c, int nc) : nm(n), cfgs(c), ncfg(nc) {}
  const char* name() const override { return nm; }
  int num_configs() const override { return ncfg; }
  const char* config_name(int i) const override { return cfgs[i].name; }
  const char* op_name(int k) const override {
    static const char* n[] = {"?", "emplace", "emplace_or_get", "get_or_emplace", "get_or_emplace_lazy", "operator[]", "erase", "erase_it",
                              "find", "contains", "erase(iterator)", "traverse", "iter_next"};
    if (k >= 1 && k <= 12) return n[k];
    if (k == OP_T_BEGIN) return "traversal_begin";
    if (k == OP_T_END) return "traversal_end";
    if (k == OP_YIELD) return "yield";
    if (k == OP_FINAL) return "final";
    return "?";
  }
  void generate(GenCtx& g, Program& p) override {
    p.config = (int)g.rng.below(ncfg);
    // C09 programs (one traverser, updaters biased to erase / re-insert) also make up half of the campaign runs
    // (C03, C16): iteration and erase(iterator) are lock-free operations and touch plain memory like everything else
    bool c09 = !strcmp(g.mode, "C09") || (strcmp(g.mode, "C08") && g.rng.chance(50));
    nkeys = c09 ? g.rng.range(4, 6) : g.rng.range(3, 5);
    int prefill = (int)g.rng.below(nkeys + 1);
    int nextv = 100;
    p.params = {nkeys, prefill, c09 ? 1 : 0};
    bool seq = !c09 && g.rng.chance(8); // long single-threaded sequence against the model
    int nt = seq ? 1 : g.rng.range(2, (g.tier || g.rng.chance(20)) ? 4 : 3);
    p.threads.resize(nt);
    for (int t = 0; t < nt; t++) {
      if (c09 && t == 0) {
        // the traverser: one or two traversals, optionally erasing the element at a random position
        int ntr = g.rng.range(1, 2);
        for (int i = 0; i < ntr; i++) p.threads[t].ops.push_back(Op{OP_TRAVERSE, g.rng.chance(50) ? (int64_t)g.rng.below(nkeys) : -1, (int64_t)g.rng.below(3), 0});
        continue;
      }
      int n = seq ? g.rng.range(50, g.tier ? 300 : 120) : g.rng.range(1, g.tier ? 8 : 6);
      for (int i = 0; i < n; i++) {
        int k = (int)g.rng.below(nkeys);
        int r = (int)g.rng.below(100);
        Op o;
        if (c09) {
          // updaters: biased to erase / re-insert
          if (r < 45) o = Op{OP_ERASE, k, 0, 0};
          else if (r < 55) o = Op{OP_ERASE_IT, k, 0, 0};
          else if (r < 90) o = Op{OP_EMPLACE, k, nextv++, 0};
          else o = Op{OP_FIND, k, 0, 0};
        } else if (r < 18) o = Op{OP_EMPLACE, k, nextv++, 0};
        else if (r < 26) o = Op{OP_EMPLACE_OR_GET, k, nextv++, 0};
        else if (r < 32) o = Op{OP_GET_OR_EMPLACE, k, nextv++, 0};
        else if (r < 38) o = Op{OP_GET_OR_EMPLACE_LAZY, k, nextv++, 0};
        else if (r < 43) o = Op{OP_INDEX, k, 0, 0};
        else if (r < 63) o = Op{OP_ERASE, k, 0, 0};
        else if (r < 73) o = Op{OP_ERASE_IT, k, 0, 0};
        else if (r < 88) o = Op{OP_FIND, k, 0, 0};
        else o = Op{OP_CONTAINS, k, 0, 0};
        p.threads[t].ops.push_back(o);
      }
    }
    if (seq) g.opt.step_cap = 400000;
  }
  void setup(const Program& p) override {
    m = cfgs[p.config].make();
    nkeys = (int)p.params[0];
    traversal_id = 0;
    for (int k = 0; k < p.params[1]; k++) run(Op{OP_EMPLACE, k, 10 + k, 0});
  }
  static void between_find_and_erase(int k, int v) {
    // the find part of erase_it is complete: record it, then start the erase(iterator) part
    op_end(1, v);
    op_begin(OP_ERASE_POS, k, v, 0, OPF_LOCKFREE);
  }
  void run(const Op& op0) {
    Op op = op0;
    // sets: emplace() is a thin wrapper around emplace_or_get(); going through the latter tells us the
    // identity of the node, which the model needs to tell incarnations of a key apart
    if (!m->is_map() && (op.kind == OP_EMPLACE || op.kind == OP_INDEX)) op.kind = OP_EMPLACE_OR_GET;
    int k = (int)op.a, v = (int)op.b;
    const int lf = OPF_LOCKFREE;
    switch (op.kind) {
      case OP_EMPLACE: {
        op_begin(op.kind, k, v, 0, lf);
        bool ok = m->emplace(k, v);
        op_end(ok);
        break;
      }
      case OP_EMPLACE_OR_GET:
      case OP_GET_OR_EMPLACE:
      case OP_GET_OR_EMPLACE_LAZY: {
        op_begin(op.kind, k, v, 0, lf);
        auto r = op.kind == OP_EMPLACE_OR_GET ? m->emplace_or_get(k, v) : op.kind == OP_GET_OR_EMPLACE ? m->get_or_emplace(k, v) : m->get_or_emplace_lazy(k, v);
        op_end(r.first, r.second);
        break;
      }
      case OP_INDEX: {
        op_begin(op.kind, k, 0, 0, lf);
        int r = m->index(k);
        op_end(1, r);
        break;
      }
      case OP_ERASE: {
        op_begin(op.kind, k, 0, 0, lf);
        bool ok = m->erase(k);
        op_end(ok);
        break;
      }
      case OP_ERASE_IT: {
        op_begin(OP_FIND, k, 0, 0, lf);
        int next_key = -1;
        Found f = m->erase_it(k, next_key, between_find_and_erase);
        if (!f.found)
          op_end(0);
        else
          op_end(1, next_key);
        break;
      }
      case OP_FIND: {
        op_begin(op.kind, k, 0, 0, lf);
        Found f = m->find(k);
        op_end(f.found, f.val);
        break;
      }
      case OP_CONTAINS: {
        op_begin(op.kind, k, 0, 0, lf);
        bool ok = m->contains(k);
        op_end(ok);
        break;
      }
      case OP_TRAVERSE: {
        int id = ++traversal_id + 100 * self();
        int pos = 0;
        int erase_at = (int)op.a;
        note(OP_T_BEGIN, erase_at, id);
        IHM::TCb cb;
        cb.style = (int)op.b;
        cb.pre_step = [&]() { op_begin(OP_ITER_NEXT, 0, id, 0, lf); };
        cb.post_step = [&]() { op_end(1); };
        cb.on_yield = [&](int key, int val) {
          note(OP_YIELD, key, val, id);
          bool er = pos == erase_at;
          pos++;
          if (er) op_begin(OP_ERASE_POS, key, val, id, lf);
          return er;
        };
        cb.post_erase = [&](int next_key) { op_end(1, next_key); };
        m->traverse(cb);
        note(OP_T_END, pos, id);
        break;
      }
    }
  }
  void exec(int, const Op& op) override { run(op); }
  void teardown(int) override {
    // quiescent: iteration and per-key lookups must agree; both are recorded for the model check
    IHM::TCb cb;
    cb.pre_step = []() {};
    cb.post_step = []() {};
    cb.post_erase = [](int) {};
    cb.on_yield = [&](int key, int val) {
      note(OP_FINAL, key, val);
      return false;
    };
    m->traverse(cb);
    for (int k = 0; k < nkeys; k++) run(Op{OP_FIND, k, 0, 0});
    delete m;
    m = nullptr;
  }

  void check(CheckCtx& c) override;
};

inline void HMHarness::check(CheckCtx& c) {
  const History& h = c.hist;
  bool is_map = true;
  {
    // sets record value 0 everywhere
    is_map = strstr(cfgs[c.prog.config].name, "set") == nullptr;
  }
  std::vector<int> ops;
  uint64_t sh = 1469598103934665603ULL;
  std::map<int, int> final_iter;
  for (int i = 0; i < h.n; i++) {
    const OpRec& o = h.ops[i];
    sh = (sh ^ (uint64_t)(o.kind * 131 + (o.status + 2) * 7 + o.r0 + o.a * 17)) * 1099511628211ULL;
    if (o.status < 0) {
      if (o.kind == OP_FINAL) {
        if (final_iter.count((int)o.a)) return c.fail("iterator-duplicate", "final iteration yielded key %ld twice", (long)o.a);
        final_iter[(int)o.a] = (int)o.b;
      }
      continue;
    }
    if (o.kind == OP_ITER_NEXT) continue;
    ops.push_back(i);
  }
  c.state_hash = sh;
  // ---- C08: linearizability against std::map (the erase(iterator) notes are instantaneous events)
  MapModel mm;
  mm.is_map = is_map;
  // An element of a map is identified by (key, value). operator[] inserts a default constructed value, so two
  // insertions of one key through operator[] are indistinguishable. erase(iterator) of such an element may
  // therefore refer to an incarnation that has already been erased by somebody else (a no-op) or to the live one:
  // the record is treated like a pending operation (takes effect or not). Only for elements that really are
  // ambiguous in this history.
  std::vector<OpRec> relaxed_copy;
  if (is_map) {
    std::map<std::pair<int64_t, int64_t>, int> ins;
    for (int i : ops) {
      const OpRec& o = h.ops[i];
      bool inserted = o.status == 1 && (o.kind == OP_EMPLACE || o.kind == OP_EMPLACE_OR_GET || o.kind == OP_GET_OR_EMPLACE ||
                                        o.kind == OP_GET_OR_EMPLACE_LAZY || o.kind == OP_INDEX);
      if (o.kind == OP_INDEX && o.r0 != 0) inserted = false; // found an existing non-default value
      if (inserted) ins[{o.a, o.kind == OP_INDEX ? 0 : o.b}]++;
    }
    bool any = false;
    for (int i : ops)
      if (h.ops[i].kind == OP_ERASE_POS && ins[{h.ops[i].a, h.ops[i].b}] >= 2) any = true;
    if (any) {
      relaxed_copy.assign(h.ops, h.ops + h.n);
      for (int i : ops)
        if (relaxed_copy[i].kind == OP_ERASE_POS && ins[{relaxed_copy[i].a, relaxed_copy[i].b}] >= 2) relaxed_copy[i].pending = true;
      c.hist.ops = relaxed_copy.data();
    }
  }
  if (h.weak) {
    // Weak runs (C03): different keys live in different atomic objects and C03 does not promise one total order
    // over operations on different keys (two threads that each insert a key and then miss the other's key is
    // store buffering, which the release/acquire orders of the list permit). Every key on its own must still
    // behave like a sequential set/map entry under happens-before precedence: no lost, duplicated or invented
    // element, key/value integrity.
    std::map<int64_t, std::vector<int>> by_key;
    for (int i : ops) by_key[h.ops[i].a].push_back(i);
    for (auto& kv : by_key)
      if (kv.second.size() <= 64 && !check_linearizable(c, *this, mm, MapModel::State(), kv.second, "not-linearizable")) return;
  } else if (ops.size() <= 64) {
    if (!check_linearizable(c, *this, mm, MapModel::State(), ops, "not-linearizable")) return;
  } else if ((int)c.prog.threads.size() == 1) {
    // long sequential program: replay in program order
    MapModel::State st;
    for (int i : ops)
      if (!mm.step(st, h.ops[i])) {
        std::vector<int> one{i};
        return c.fail("sequential-mismatch", "sequential run deviates from std::map at %s", describe_ops(h, *this, one).c_str());
      }
  }
  // final iteration == final lookups
  {
    std::map<int, int> finds;
    for (int i = h.n - 1; i >= 0; i--) {
      const OpRec& o = h.ops[i];
      if (o.status >= 0 && o.kind == OP_FIND && h.ops[i].tid == h.ops[h.n - 1].tid) {
        if (o.status == 1) finds[(int)o.a] = (int)o.r0;
      } else if (o.status >= 0 && h.ops[i].tid != h.ops[h.n - 1].tid)
        break;
    }
    if (finds != final_iter) {
      std::string a, b;
      char buf[32];
      for (auto& e : finds) { snprintf(buf, sizeof buf, "%d:%d ", e.first, e.second); a += buf; }
      for (auto& e : final_iter) { snprintf(buf, sizeof buf, "%d:%d ", e.first, e.second); b += buf; }
      return c.fail("iteration-mismatch", "quiescent iteration yields {%s} but lookups find {%s}", b.c_str(), a.c_str());
    }
  }
  // ---- C09: traversals
  for (int ti = 0; ti < h.n; ti++) {
    if (h.ops[ti].status >= 0 || h.ops[ti].kind != OP_T_BEGIN) continue;
    int id = (int)h.ops[ti].b;
    int te = -1;
    for (int i = ti + 1; i < h.n; i++)
      if (h.ops[i].status < 0 && h.ops[i].kind == OP_T_END && h.ops[i].b == id) te = i;
    if (te < 0) continue;
    OpRec T = h.ops[ti]; // the traversal as one interval: [begin note, end note]
    T.status = 1;
    T.resp = h.ops[te].resp;
    T.resp_vc = h.ops[te].resp_vc;
    std::vector<int> yields;
    for (int i = 0; i < h.n; i++)
      if (h.ops[i].status < 0 && h.ops[i].kind == OP_YIELD && h.ops[i].c == id) yields.push_back(i);
    // inserts / erases by key
    // the insertions a yielded (key,value) may stem from: every matching one that does not start after the yield
    // (node identities of sets recur when lock_free_ref_count - or the allocator - recycles a node, so there can
    // be several; the yield is justified if one of them is)
    auto inserted_by = [&](int k, int v, const OpRec& y) -> std::vector<int> {
      std::vector<int> r;
      for (int i = 0; i < h.n; i++) {
        const OpRec& o = h.ops[i];
        if (o.status != 1 || o.a != k) continue;
        if ((o.kind == OP_EMPLACE || o.kind == OP_EMPLACE_OR_GET || o.kind == OP_GET_OR_EMPLACE || o.kind == OP_GET_OR_EMPLACE_LAZY) &&
            (is_map ? o.b : o.r0) == v && !h.precedes(y, o))
          r.push_back(i);
      }
      return r;
    };
    for (size_t a = 0; a < yields.size(); a++) {
      const OpRec& y = h.ops[yields[a]];
      for (size_t b = a + 1; b < yields.size(); b++) {
        const OpRec& z = h.ops[yields[b]];
        if (y.a == z.a && y.b == z.b) {
          // sets: the node identity can recur when lock_free_ref_count recycles the node for a re-insertion
          // of the same key during the traversal ("no key twice unless re-inserted")
          bool reinserted = false;
          if (!is_map)
            for (int i = 0; i < h.n; i++) {
              const OpRec& o = h.ops[i];
              if (o.status == 1 && o.a == y.a && o.kind == OP_EMPLACE_OR_GET && o.r0 == y.b && !h.precedes(o, T) && !h.precedes(z, o)) reinserted = true;
            }
          if (!reinserted) return c.fail("iterator-duplicate", "traversal yielded element (%ld,%ld) twice", (long)y.a, (long)y.b);
        }
      }
      std::vector<int> cand = inserted_by((int)y.a, (int)y.b, y);
      if (cand.empty()) return c.fail("iterator-invented", "traversal yielded (%ld,%ld) which was never inserted", (long)y.a, (long)y.b);
      // definitely absent for the whole window [T.inv, yield]: for every insertion it may stem from, some successful
      // erase of the key after that insertion completed and finished before the traversal began
      bool justified = false;
      for (int I : cand) {
        bool erased_before = false;
        for (int e = 0; e < h.n && !erased_before; e++) {
          const OpRec& E = h.ops[e];
          bool is_erase = (E.kind == OP_ERASE && E.status == 1) || (E.kind == OP_ERASE_POS && E.b == y.b);
          if (!is_erase || E.a != y.a) continue;
          if (E.kind == OP_ERASE_POS && E.c == id) continue; // our own erase through the iterator
          if (h.precedes(h.ops[I], E) && h.precedes(E, T)) erased_before = true;
        }
        if (!erased_before) justified = true;
      }
      if (!justified)
        return c.fail("iterator-stale", "traversal yielded (%ld,%ld) although it had been erased before the traversal began", (long)y.a, (long)y.b);
    }
    // completeness: elements present during the whole traversal must be yielded
    for (int i = 0; i < h.n; i++) {
      const OpRec& I = h.ops[i];
      bool ins = I.status == 1 && (I.kind == OP_EMPLACE || I.kind == OP_EMPLACE_OR_GET || I.kind == OP_GET_OR_EMPLACE || I.kind == OP_GET_OR_EMPLACE_LAZY);
      if (!ins || !h.precedes(I, T)) continue;
      bool maybe_gone = false;
      for (int e = 0; e < h.n && !maybe_gone; e++) {
        const OpRec& E = h.ops[e];
        if (E.a != I.a) continue;
        bool is_erase = (E.kind == OP_ERASE && E.status == 1) || E.kind == OP_ERASE_POS;
        if (is_erase && !h.precedes(T, E)) maybe_gone = true; // erased before or during the traversal (or unordered)
      }
      if (maybe_gone) continue;
      bool yielded = false;
      for (int yi : yields)
        if (h.ops[yi].a == I.a && h.ops[yi].b == (is_map ? I.b : I.r0)) yielded = true;
      if (!yielded)
        return c.fail("iterator-incomplete", "element (%ld,%ld) was in the container during the whole traversal but was not yielded", (long)I.a,
                      (long)(is_map ? I.b : I.r0));
    }
  }
}
} // namespace hm
