#include "hm_common.hpp"
using namespace hm;
namespace hx_hmlist {
namespace xp = xenium::policy;
template <class R, class C = std::less<int>>
using Set = xenium::harris_michael_list_based_set<int, xp::reclaimer<R>, xp::compare<C>>;
const Cfg cfgs[] = {
  {"set/less/hp_s8_0_0", mk<SetAd<Set<rc::HP_S<8, 0, 0>>>>},
  {"set/less/hp_d1_1_1", mk<SetAd<Set<rc::HP_D<1, 1, 1>>>>},
  {"set/greater/ebr0", mk<SetAd<Set<rc::EBR<0>, std::greater<int>>>>},
  {"set/less/nebr1", mk<SetAd<Set<rc::NEBR<1>>>>},
  {"set/less/stamp", mk<SetAd<Set<rc::STAMP>>>},
  {"set/greater/he_s8_0_0", mk<SetAd<Set<rc::HE_S<8, 0, 0>, std::greater<int>>>>},
  {"set/less/lfrc", mk<SetAd<Set<rc::LFRC>>>},
  {"set/less/qsbr", mk<SetAd<Set<rc::QSBR>>>},
  {"set/less/debra0", mk<SetAd<Set<rc::DEBRA<0>>>>},
  {"set/coarse_less/ebr0", mk<SetAd<Set<rc::EBR<0>, CoarseLess>, 1>>},
  {"set/coarse_less/hp_s8_0_0", mk<SetAd<Set<rc::HP_S<8, 0, 0>, CoarseLess>, 1>>},
  {"set/less/backoff_exp2/ebr0", mk<SetAd<xenium::harris_michael_list_based_set<int, xp::reclaimer<rc::EBR<0>>, xp::backoff<xenium::exponential_backoff<2>>>>>},
};
HMHarness h("hmlist", cfgs, sizeof(cfgs) / sizeof(cfgs[0]));
struct Reg { Reg() { xsim::register_harness(&h); hx::register_reclaimer_probes(); xsim::fn_pair_probe("harris_michael: erase overlaps find of another thread", "harris_michael&5eraseE", "harris_michael&4findE"); xsim::fn_pair_probe("harris_michael: iterator increment overlaps erase", "iteratorppEv", "harris_michael&5eraseE"); xsim::fn_pair_probe("harris_michael: two erase overlap", "harris_michael&5eraseE", "harris_michael&5eraseE"); } } reg;
} // namespace
XSIM_MAIN()
