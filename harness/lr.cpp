// C13 — left_right: readers always see one consistent, fully updated instance
#include "common.hpp"
#include "lincheck.hpp"
#include <xenium/left_right.hpp>

using namespace xsim;
namespace hx_lr {
enum { OP_UPDATE = 1, OP_READ = 2, OP_APPLY = 40 };
struct Rec {
  uint64_t a = 0, b = 0, c = 0;
  void add(uint64_t d) {
    a += d;
    b += d;
    c += d;
  }
  bool get(uint64_t& x, uint64_t& y, uint64_t& z) const {
    x = a, y = b, z = c;
    return true;
  }
};
// An instance type that owns heap memory and whose move constructor empties its source (what std::vector, std::string
// and every container do): the two instances have to be initialised as two independent, complete copies of the source
// value, whichever constructor is used (seed RAk: the single-source constructor copying from an already moved-from
// argument).
struct VRec {
  std::vector<uint64_t> v;
  VRec() : v(3, 0) {}
  void add(uint64_t d) {
    for (auto& x : v) x += d;
  }
  bool get(uint64_t& x, uint64_t& y, uint64_t& z) const {
    if (v.size() != 3) return false;
    x = v[0], y = v[1], z = v[2];
    return true;
  }
};
struct Vals {
  bool ok;
  uint64_t a, b, c;
};

// An update functor with ref-qualified call operators, passed as a temporary: the library invokes the functor once
// per instance; both invocations have to apply the same update ("every update is applied exactly once to each of the
// two instances"), so it must not treat the functor as an expiring value before the last call.
struct Inc {
  int64_t id;
  uint64_t delta = 1;
  template <class R>
  void apply(R& r, uint64_t d) {
    note(OP_APPLY, id, (int64_t)(reinterpret_cast<uintptr_t>(&r) & 0xffffff), (int64_t)d);
    r.add(d);
  }
  template <class R>
  void operator()(R& r) & {
    apply(r, delta);
  }
  template <class R>
  void operator()(R& r) && {
    apply(r, delta);
    delta = 0; // an rvalue call may consume the functor
  }
};

struct LRBase {
  virtual ~LRBase() {}
  virtual void update(int64_t id) = 0;
  virtual Vals read(bool by_ref) = 0;
};
// ctor: 0 single-source constructor, 1 two-source constructor, 2 default constructor
template <class R>
struct LRImpl : LRBase {
  xenium::left_right<R> lr;
  static xenium::left_right<R> make(int ctor) {
    if (ctor == 0) return xenium::left_right<R>(R{});
    if (ctor == 1) return xenium::left_right<R>(R{}, R{});
    return xenium::left_right<R>();
  }
  explicit LRImpl(int ctor) : lr(make(ctor)) {}
  void update(int64_t id) override {
    if (id & 1)
      lr.update(Inc{id});
    else
      lr.update([id](R& r) {
        note(OP_APPLY, id, (int64_t)(reinterpret_cast<uintptr_t>(&r) & 0xffffff), 1);
        r.add(1);
      });
  }
  Vals read(bool by_ref) override {
    R v = by_ref ? R(lr.read([](const R& r) -> const R& { return r; })) : lr.read([](const R& r) { return r; });
    Vals o;
    o.ok = v.get(o.a, o.b, o.c);
    return o;
  }
};

struct CModel {
  using State = int64_t;
  bool step(State& s, const OpRec& o) const {
    if (o.kind == OP_UPDATE) {
      s++;
      return true;
    }
    return o.r0 == s;
  }
  bool step_pending(State& s, const OpRec& o) const {
    if (o.kind == OP_UPDATE) s++;
    return true;
  }
  void key(const State& s, std::string& k) const { k.append((const char*)&s, 8); }
};

class LRHarness : public Harness {
  LRBase* lr = nullptr;

public:
  const char* name() const override { return "lr"; }
  int num_configs() const override { return 5; }
  const char* config_name(int i) const override {
    static const char* n[] = {"left_right<Rec>", "left_right<VRec>/single_source_ctor", "left_right<VRec>/two_source_ctor", "left_right<VRec>/default_ctor",
                              "left_right<Rec>/default_ctor"};
    return n[i];
  }
  const char* op_name(int k) const override { return k == OP_UPDATE ? "update" : k == OP_READ ? "read" : "apply"; }
  void generate(GenCtx& g, Program& p) override {
    // half of the runs keep the plain record; the others use the heap-owning record with one of the three constructors
    p.config = g.rng.chance(50) ? 0 : 1 + (int)g.rng.below(4);
    int nw = g.rng.range(1, 2), nr = g.rng.range(1, g.tier ? 3 : 2);
    p.threads.resize(nw + nr);
    int uid = 1;
    for (int t = 0; t < nw; t++) {
      int n = g.rng.range(1, g.tier ? 4 : 3);
      for (int i = 0; i < n; i++) p.threads[t].ops.push_back(Op{OP_UPDATE, uid++, 0, 0});
    }
    for (int t = nw; t < nw + nr; t++) {
      int n = g.rng.range(1, g.tier ? 6 : 4);
      // a = 1: the read functor returns a reference to the instance (`-> const Rec&`); read() returns by value
      // (`auto`), i.e. the copy the caller gets has to be made while the reader is still registered
      for (int i = 0; i < n; i++) p.threads[t].ops.push_back(Op{OP_READ, g.rng.chance(40) ? 1 : 0, 0, 0});
    }
    g.opt.step_cap = 200000;
  }
  void setup(const Program& p) override {
    switch (p.config) {
      case 0: lr = new LRImpl<Rec>(0); break;
      case 1: lr = new LRImpl<VRec>(0); break;
      case 2: lr = new LRImpl<VRec>(1); break;
      case 3: lr = new LRImpl<VRec>(2); break;
      default: lr = new LRImpl<Rec>(2); break;
    }
  }
  static void check_vals(const Vals& v) {
    if (!v.ok) xsim::fail("instance-corrupt", "read observed an instance that is not a complete copy of the value the left_right was constructed from (moved-from / empty)");
    if (v.a != v.b || v.b != v.c) xsim::fail("mixed-read", "read observed a partially updated instance: a=%lu b=%lu c=%lu", v.a, v.b, v.c);
  }
  void exec(int, const Op& op) override {
    if (op.kind == OP_UPDATE) {
      op_begin(OP_UPDATE, op.a, 0, 0, 0);
      lr->update(op.a);
      op_end(1);
    } else {
      op_begin(OP_READ, op.a, 0, 0, OPF_LOCKFREE);
      Vals v = lr->read(op.a != 0);
      check_vals(v);
      op_end(1, (int64_t)v.a);
    }
  }
  void teardown(int) override {
    op_begin(OP_READ, 0, 0, 0, OPF_LOCKFREE);
    Vals v = lr->read(false);
    check_vals(v);
    op_end(1, (int64_t)v.a);
    delete lr;
    lr = nullptr;
  }
  void check(CheckCtx& c) override {
    std::vector<int> ops;
    std::vector<int64_t> order[2];
    int64_t inst_addr[2] = {-1, -1};
    uint64_t sh = 1469598103934665603ULL;
    for (int i = 0; i < c.hist.n; i++) {
      const OpRec& o = c.hist.ops[i];
      sh = (sh ^ (uint64_t)(o.kind * 31 + o.r0 + o.a * 7)) * 1099511628211ULL;
      if (o.status < 0) {
        if (o.kind == OP_APPLY) {
          int k = inst_addr[0] == o.b ? 0 : inst_addr[1] == o.b ? 1 : inst_addr[0] < 0 ? 0 : inst_addr[1] < 0 ? 1 : -1;
          if (k < 0) return c.fail("foreign-instance", "update functor ran on a third instance");
          inst_addr[k] = o.b;
          order[k].push_back(o.a);
          if (o.c != 1) return c.fail("update-differs", "update %ld was applied to one of the instances with a consumed (moved-from) functor", (long)o.a);
        }
        continue;
      }
      ops.push_back(i);
    }
    c.state_hash = sh;
    if (order[0] != order[1]) {
      // every update must be applied exactly once to each instance, in the same order
      std::string a, b;
      for (auto v : order[0]) a += std::to_string(v) + " ";
      for (auto v : order[1]) b += std::to_string(v) + " ";
      return c.fail("update-order", "updates applied as {%s} to one instance but {%s} to the other", a.c_str(), b.c_str());
    }
    for (size_t i = 0; i < order[0].size(); i++)
      for (size_t j = i + 1; j < order[0].size(); j++)
        if (order[0][i] == order[0][j]) return c.fail("update-twice", "update %ld applied twice to the same instance", (long)order[0][i]);
    CModel m;
    check_linearizable(c, *this, m, 0, ops, "not-linearizable");
  }
};
LRHarness h;
struct Reg { Reg() { register_harness(&h); xsim::fn_probe("left_right: wait_for_readers executed", "16wait_for_readers"); xsim::fn_pair_probe("left_right: toggle_version_and_wait overlaps a reader arriving", "23toggle_version_and_wait", "6arriveEv"); xsim::fn_pair_probe("left_right: wait_for_readers overlaps a reader departing", "16wait_for_readers", "6departEv"); } } reg;
} // namespace hx_lr
XSIM_MAIN()
