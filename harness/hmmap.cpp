#include "hm_common.hpp"
using namespace hm;
namespace hx_hmmap {
namespace xp = xenium::policy;
struct IdHash { std::size_t operator()(int k) const { return (std::size_t)k; } };
struct ConstHash { template <class K> std::size_t operator()(const K&) const { return 7; } };
struct ScrambleHash { std::size_t operator()(int k) const { return (std::size_t)((k * 5) % 7); } };
struct RevBucket { std::size_t operator()(std::size_t h, std::size_t n) const { return (n - 1) - (h % n); } };
struct StrScramble { std::size_t operator()(const std::string& s) const { return (std::size_t)(((s.back() - 'a') * 5) % 7); } };
template <class R, std::size_t B, bool Memo, class H>
using IMap = xenium::harris_michael_hash_map<int, int, xp::reclaimer<R>, xp::buckets<B>, xp::memoize_hash<Memo>, xp::hash<H>>;
template <class R, std::size_t B, class H>
using SMap = xenium::harris_michael_hash_map<std::string, int, xp::reclaimer<R>, xp::buckets<B>, xp::hash<H>>;
const Cfg cfgs[] = {
  {"map<int>/b1/nomemo/id/hp_s8_0_0", mk<MapAd<IMap<rc::HP_S<8, 0, 0>, 1, false, IdHash>, int>>},
  {"map<int>/b2/memo/scramble/ebr0", mk<MapAd<IMap<rc::EBR<0>, 2, true, ScrambleHash>, int>>},
  {"map<int>/b1/memo/scramble/nebr1", mk<MapAd<IMap<rc::NEBR<1>, 1, true, ScrambleHash>, int>>},
  {"map<int>/b8/nomemo/const/stamp", mk<MapAd<IMap<rc::STAMP, 8, false, ConstHash>, int>>},
  {"map<int>/b2/memo/id/he_s8_0_0", mk<MapAd<IMap<rc::HE_S<8, 0, 0>, 2, true, IdHash>, int>>},
  {"map<int>/b1/memo/const/lfrc", mk<MapAd<IMap<rc::LFRC, 1, true, ConstHash>, int>>},
  {"map<string>/b1/defmemo/scramble/ebr0", mk<MapAd<SMap<rc::EBR<0>, 1, StrScramble>, std::string>>},
  {"map<string>/b2/defmemo/const/hp_d1_1_1", mk<MapAd<SMap<rc::HP_D<1, 1, 1>, 2, ConstHash>, std::string>>},
  {"map<int>/b2/nomemo/scramble/qsbr", mk<MapAd<IMap<rc::QSBR, 2, false, ScrambleHash>, int>>},
  {"map<int>/b2/memo/id/backoff_single/hp_s8_0_0",
   mk<MapAd<xenium::harris_michael_hash_map<int, int, xp::reclaimer<rc::HP_S<8, 0, 0>>, xp::buckets<2>, xp::memoize_hash<true>, xp::hash<IdHash>, xp::backoff<xenium::single_backoff>>, int>>},
  {"map<string>/b2/nomemo/scramble/nebr1",
   mk<MapAd<xenium::harris_michael_hash_map<std::string, int, xp::reclaimer<rc::NEBR<1>>, xp::buckets<2>, xp::memoize_hash<false>, xp::hash<StrScramble>>, std::string>>},
  {"map<int>/b3/nomemo/id/revbucket/ebr0",
   mk<MapAd<xenium::harris_michael_hash_map<int, int, xp::reclaimer<rc::EBR<0>>, xp::buckets<3>, xp::memoize_hash<false>, xp::hash<IdHash>, xp::map_to_bucket<RevBucket>>, int>>},
};
HMHarness h("hmmap", cfgs, sizeof(cfgs) / sizeof(cfgs[0]));
struct Reg { Reg() { xsim::register_harness(&h); hx::register_reclaimer_probes(); xsim::fn_pair_probe("harris_michael: erase overlaps find of another thread", "harris_michael&5eraseE", "harris_michael&4findE"); xsim::fn_pair_probe("harris_michael: iterator increment overlaps erase", "iteratorppEv", "harris_michael&5eraseE"); xsim::fn_pair_probe("harris_michael: two erase overlap", "harris_michael&5eraseE", "harris_michael&5eraseE"); xsim::fn_probe("harris_michael_hash_map: iterator crosses a bucket boundary (move_to_next_bucket)", "19move_to_next_bucket"); xsim::fn_pair_probe("harris_michael_hash_map: move_to_next_bucket overlaps erase", "19move_to_next_bucket", "harris_michael&5eraseE"); } } reg;
} // namespace
XSIM_MAIN()
