// C04 — unbounded FIFO queues (michael_scott, ramalhete, nikolaev): linearizability against std::deque
#pragma once
#include "common.hpp"
#include "lincheck.hpp"
#include "reclaimers.hpp"
#include <deque>
#include <memory>
#include <optional>
#include <string>

namespace qh {
using namespace xsim;

enum { OP_PUSH = 1, OP_TRY_POP = 2, OP_POP = 3, OP_DRAIN_POP = 4 };

struct IQueue {
  virtual ~IQueue() = default;
  virtual void push(int v) = 0;
  virtual bool try_pop(int& v) = 0;
  virtual bool pop(int& v) = 0; // the std::optional returning variant
};

static int g_vals[256]; // pointer payloads point into this array

template <class Q>
struct IntQueue : IQueue {
  Q q;
  void push(int v) override { q.push(v); }
  bool try_pop(int& v) override { return q.try_pop(v); }
  bool pop(int& v) override {
    auto r = q.pop();
    if (r) v = *r;
    return r.has_value();
  }
};
template <class Q>
struct PtrQueue : IQueue {
  Q q;
  void push(int v) override { q.push(&g_vals[v]); }
  bool try_pop(int& v) override {
    int* p = nullptr;
    bool ok = q.try_pop(p);
    if (ok) v = (int)(p - g_vals);
    return ok;
  }
  bool pop(int& v) override {
    auto r = q.pop();
    if (r) v = (int)(*r - g_vals);
    return r.has_value();
  }
};

// by-value element type whose move is not a copy (the moved-from string is empty): a value that is moved once too
// often or taken from a moved-from object comes out as "" and decodes to 0, which nobody pushed
template <class Q>
struct StrQueue : IQueue {
  Q q;
  static std::string enc(int v) { return std::string("value-with-a-heap-buffer-#") + std::to_string(v); }
  static int dec(const std::string& s) {
    size_t p = s.rfind('#');
    if (p == std::string::npos || s.compare(0, p + 1, "value-with-a-heap-buffer-#") != 0) return 0;
    return atoi(s.c_str() + p + 1);
  }
  void push(int v) override { q.push(enc(v)); }
  bool try_pop(int& v) override {
    std::string s;
    bool ok = q.try_pop(s);
    if (ok) v = dec(s);
    return ok;
  }
  bool pop(int& v) override {
    auto r = q.pop();
    if (r) v = dec(*r);
    return r.has_value();
  }
};

struct Config {
  const char* name;
  IQueue* (*make)();
};

struct FifoModel {
  using State = std::deque<int>;
  bool step(State& s, const OpRec& o) const {
    switch (o.kind) {
      case OP_PUSH: s.push_back((int)o.a); return true;
      default:
        if (o.status == 1) {
          if (s.empty() || s.front() != (int)o.r0) return false;
          s.pop_front();
          return true;
        }
        return s.empty();
    }
  }
  bool step_pending(State& s, const OpRec& o) const {
    if (o.kind == OP_PUSH) {
      s.push_back((int)o.a);
      return true;
    }
    if (!s.empty()) s.pop_front();
    return true;
  }
  void key(const State& s, std::string& k) const {
    for (int v : s) k.push_back((char)v);
  }
};

class QueueHarness : public Harness {
  const char* nm;
  const Config* cfgs;
  int ncfg;
  IQueue* q = nullptr;

public:
  QueueHarness(const char* n, const Config* c, int nc) : nm(n), cfgs(c), ncfg(nc) {}
  const char* name() const override { return nm; }
  int num_configs() const override { return ncfg; }
  const char* config_name(int i) const override { return cfgs[i].name; }
  const char* op_name(int k) const override {
    switch (k) {
      case OP_PUSH: return "push";
      case OP_TRY_POP: return "try_pop";
      case OP_POP: return "pop";
      case OP_DRAIN_POP: return "drain_pop";
    }
    return "?";
  }
  void generate(GenCtx& g, Program& p) override {
    p.config = (int)g.rng.below(ncfg);
    int nt = g.rng.range(2, (g.tier || g.rng.chance(20)) ? 4 : 3);
    int maxops = g.tier ? 8 : 6;
    int prefill = (int)g.rng.below(5); // pushed by the setup thread, may cross a node boundary
    p.params = {prefill};
    int next = prefill + 1;
    p.threads.resize(nt);
    int mix = (int)g.rng.below(3); // 0 balanced, 1 producers/consumers, 2 pop heavy
    for (int t = 0; t < nt; t++) {
      int n = g.rng.range(1, maxops);
      for (int i = 0; i < n; i++) {
        bool push;
        if (mix == 1)
          push = (t % 2) == 0;
        else
          push = g.rng.chance(mix == 2 ? 35 : 50);
        if (push && next < 120)
          p.threads[t].ops.push_back(Op{OP_PUSH, next++, 0, 0});
        else
          p.threads[t].ops.push_back(Op{g.rng.chance(50) ? OP_TRY_POP : OP_POP, 0, 0, 0});
      }
    }
  }
  void setup(const Program& p) override {
    q = cfgs[p.config].make();
    int prefill = p.params.empty() ? 0 : (int)p.params[0];
    for (int v = 1; v <= prefill; v++) {
      op_begin(OP_PUSH, v, 0, 0, OPF_LOCKFREE);
      q->push(v);
      op_end(1);
    }
  }
  void exec(int, const Op& op) override {
    int v = 0;
    switch (op.kind) {
      case OP_PUSH:
        op_begin(OP_PUSH, op.a, 0, 0, OPF_LOCKFREE);
        q->push((int)op.a);
        op_end(1);
        break;
      case OP_TRY_POP: {
        op_begin(OP_TRY_POP, 0, 0, 0, OPF_LOCKFREE);
        bool ok = q->try_pop(v);
        op_end(ok, v);
        break;
      }
      default: {
        op_begin(OP_POP, 0, 0, 0, OPF_LOCKFREE);
        bool ok = q->pop(v);
        op_end(ok, v);
        break;
      }
    }
  }
  void teardown(int) override {
    for (;;) {
      int v = 0;
      op_begin(OP_DRAIN_POP, 0, 0, 0, OPF_LOCKFREE);
      bool ok = q->try_pop(v);
      op_end(ok, v);
      if (!ok) break;
    }
    delete q;
    q = nullptr;
  }
  void check(CheckCtx& c) override {
    std::vector<int> ops;
    uint64_t sh = 1469598103934665603ULL;
    for (int i = 0; i < c.hist.n; i++) {
      const OpRec& o = c.hist.ops[i];
      if (o.status < 0) continue;
      ops.push_back(i);
      if (o.kind != OP_PUSH) {
        if (o.status == 1 && (o.r0 <= 0 || o.r0 >= 256)) {
          c.fail("invented-value", "pop returned %ld which was never pushed", (long)o.r0);
          return;
        }
        sh = (sh ^ (uint64_t)(o.status ? o.r0 + 1 : 0)) * 1099511628211ULL;
      }
    }
    // conservation census (independent of the linearization search)
    int pushed[256] = {0}, popped[256] = {0};
    for (int i : ops) {
      const OpRec& o = c.hist.ops[i];
      if (o.kind == OP_PUSH)
        pushed[o.a]++;
      else if (o.status == 1)
        popped[o.r0]++;
    }
    for (int v = 0; v < 256; v++) {
      if (popped[v] > 1) {
        c.fail("duplicated-element", "value %d was returned by %d pops", v, popped[v]);
        return;
      }
      if (popped[v] && !pushed[v]) {
        c.fail("invented-value", "value %d popped but never pushed", v);
        return;
      }
      if (pushed[v] && !popped[v]) {
        c.fail("lost-element", "value %d was pushed but neither popped nor found by the final drain", v);
        return;
      }
    }
    FifoModel m;
    if (c.hist.weak) {
      // weak runs (C03): conservation and delivery order are promised, exact 'empty' answers are not (a pop that
      // misses a push it is not ordered after by happens-before is store buffering) - see bqueues.cpp
      std::vector<int> sub;
      for (int i : ops)
        if (c.hist.ops[i].kind == OP_PUSH || c.hist.ops[i].status != 0) sub.push_back(i);
      ops.swap(sub);
    }
    check_linearizable(c, *this, m, FifoModel::State(), ops, "not-linearizable");
    c.state_hash = sh;
  }
};

template <class Q>
IQueue* make_int() {
  return new IntQueue<Q>();
}
template <class Q>
IQueue* make_str() {
  return new StrQueue<Q>();
}
template <class Q>
IQueue* make_ptr() {
  return new PtrQueue<Q>();
}
} // namespace qh
