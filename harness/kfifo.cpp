// C06 — Kirsch k-FIFO queues (unbounded with reclaimer, bounded): k-relaxed FIFO model
#include "common.hpp"
#include "lincheck.hpp"
#include "reclaimers.hpp"
#include <deque>
#include <optional>
#include <xenium/kirsch_bounded_kfifo_queue.hpp>
#include <xenium/kirsch_kfifo_queue.hpp>

using namespace xsim;
namespace hx_kfifo {
enum { OP_PUSH = 1, OP_TRY_POP = 2, OP_POP = 3, OP_DRAIN = 4 };
int g_vals[256];

struct IKQ {
  virtual ~IKQ() = default;
  virtual bool push(int v) = 0;
  virtual bool pop(int kind, int& v) = 0;
};
template <class Q>
struct Unb : IKQ {
  Q q;
  explicit Unb(uint64_t k, uint64_t) : q(k) {}
  bool push(int v) override {
    q.push(&g_vals[v]);
    return true;
  }
  bool pop(int kind, int& v) override {
    if (kind == OP_POP) {
      auto r = q.pop();
      if (r) v = (int)(*r - g_vals);
      return r.has_value();
    }
    int* p = nullptr;
    bool ok = q.try_pop(p);
    if (ok) v = (int)(p - g_vals);
    return ok;
  }
};
template <class Q>
struct Bnd : IKQ {
  Q q;
  Bnd(uint64_t k, uint64_t segs) : q(k, segs) {}
  bool push(int v) override { return q.try_push(&g_vals[v]); }
  bool pop(int kind, int& v) override {
    if (kind == OP_POP) {
      auto r = q.pop();
      if (r) v = (int)(*r - g_vals);
      return r.has_value();
    }
    int* p = nullptr;
    bool ok = q.try_pop(p);
    if (ok) v = (int)(p - g_vals);
    return ok;
  }
};
struct Cfg {
  const char* name;
  bool bounded;
  IKQ* (*make)(uint64_t, uint64_t);
};
template <class W>
IKQ* mk(uint64_t k, uint64_t s) {
  return new W(k, s);
}
template <class R>
using KQ = xenium::kirsch_kfifo_queue<int*, xenium::policy::reclaimer<R>>;
template <class R>
using KQ0 = xenium::kirsch_kfifo_queue<int*, xenium::policy::reclaimer<R>, xenium::policy::padding_bytes<0>>;
const Cfg cfgs[] = {
  {"kfifo/hp_s3_0_0", false, mk<Unb<KQ<rc::HP_S<3, 0, 0>>>>},
  {"kfifo/ebr0", false, mk<Unb<KQ<rc::EBR<0>>>>},
  {"kfifo/stamp", false, mk<Unb<KQ<rc::STAMP>>>},
  {"kfifo_pad0/nebr1", false, mk<Unb<KQ0<rc::NEBR<1>>>>},
  {"kfifo/he_d1_1_0", false, mk<Unb<KQ<rc::HE_D<1, 1, 0>>>>},
  {"bounded_kfifo", true, mk<Bnd<xenium::kirsch_bounded_kfifo_queue<int*>>>},
  {"bounded_kfifo_pad0", true, mk<Bnd<xenium::kirsch_bounded_kfifo_queue<int*, xenium::policy::padding_bytes<0>>>>},
};
constexpr int NCFG = sizeof(cfgs) / sizeof(cfgs[0]);

struct KModel {
  using State = std::deque<int>;
  size_t k = 1;
  bool bounded = false;
  bool lenient_full = false; // second pass: a rejected push is always admissible
  size_t segs = 1;
  const History* h = nullptr;
  std::vector<int> overlap;
  bool step(State& s, const OpRec& o) const {
    if (o.kind == OP_PUSH) {
      if (o.status == 1) {
        s.push_back((int)o.a);
        return true;
      }
      // bounded: rejected only if at least (segments-1)*k+1 values are stored
      return bounded && (lenient_full || s.size() >= (segs - 1) * k + 1);
    }
    if (o.status == 1) {
      size_t lim = s.size() < k ? s.size() : k;
      for (size_t i = 0; i < lim; i++)
        if (s[i] == (int)o.r0) {
          s.erase(s.begin() + (long)i);
          return true;
        }
      return false;
    }
    if (overlap[&o - h->ops] == 0) return s.empty();
    return s.size() < k;
  }
  bool step_pending(State& s, const OpRec& o) const {
    if (o.kind == OP_PUSH) s.push_back((int)o.a);
    return true;
  }
  void key(const State& s, std::string& kk) const {
    for (int v : s) kk.push_back((char)v);
  }
};

class KHarness : public Harness {
  IKQ* q = nullptr;
  int cur = 0;

public:
  const char* name() const override { return "kfifo"; }
  int num_configs() const override { return NCFG; }
  const char* config_name(int i) const override { return cfgs[i].name; }
  const char* op_name(int k) const override {
    static const char* n[] = {"?", "push", "try_pop", "pop", "drain_pop"};
    return k >= 1 && k <= 4 ? n[k] : "?";
  }
  void generate(GenCtx& g, Program& p) override {
    p.config = (int)g.rng.below(NCFG);
    // the k-FIFO algorithms assume sequential consistency (known finding D14): weak executions only in the C03 campaign
    if (strcmp(g.mode, "C03") != 0) g.opt.W = 0;
    bool b = cfgs[p.config].bounded;
    int k = g.rng.range(1, b ? 3 : 4);
    int segs = b ? g.rng.range(1, 4) : 0;
    int prefill = (int)g.rng.below(b ? (size_t)(k * segs + 1) : 6);
    p.params = {k, segs, prefill};
    int nt = g.rng.range(2, (g.tier || g.rng.chance(20)) ? 4 : 3);
    int maxops = g.tier ? 8 : 6;
    int next = prefill + 1;
    p.threads.resize(nt);
    int mix = (int)g.rng.below(3);
    for (int t = 0; t < nt; t++) {
      int n = g.rng.range(1, maxops);
      for (int i = 0; i < n; i++) {
        bool push = mix == 1 ? (t % 2 == 0) : g.rng.chance(mix == 2 ? 35 : 50);
        if (push && next < 120)
          p.threads[t].ops.push_back(Op{OP_PUSH, next++, 0, 0});
        else
          p.threads[t].ops.push_back(Op{g.rng.chance(50) ? OP_TRY_POP : OP_POP, 0, 0, 0});
      }
    }
  }
  void setup(const Program& p) override {
    cur = p.config;
    q = cfgs[p.config].make((uint64_t)p.params[0], (uint64_t)p.params[1]);
    for (int v = 1; v <= p.params[2]; v++) {
      op_begin(OP_PUSH, v, 0, 0, OPF_LOCKFREE);
      bool ok = q->push(v);
      op_end(ok);
    }
  }
  void exec(int, const Op& op) override {
    if (op.kind == OP_PUSH) {
      op_begin(OP_PUSH, op.a, 0, 0, OPF_LOCKFREE);
      bool ok = q->push((int)op.a);
      op_end(ok);
    } else {
      int v = 0;
      op_begin(op.kind, 0, 0, 0, OPF_LOCKFREE);
      bool ok = q->pop(op.kind, v);
      op_end(ok, v);
    }
  }
  void teardown(int) override {
    for (;;) {
      int v = 0;
      op_begin(OP_DRAIN, 0, 0, 0, OPF_LOCKFREE);
      bool ok = q->pop(OP_TRY_POP, v);
      op_end(ok, v);
      if (!ok) break;
    }
    delete q;
    q = nullptr;
  }
  void check(CheckCtx& c) override {
    KModel m;
    m.k = (size_t)c.prog.params[0];
    m.bounded = cfgs[c.prog.config].bounded;
    m.segs = (size_t)c.prog.params[1];
    m.h = &c.hist;
    m.overlap.assign(c.hist.n, 0);
    std::vector<int> ops;
    uint64_t sh = 1469598103934665603ULL;
    int pushed[256] = {0}, popped[256] = {0};
    long max_overtake = 0;
    for (int i = 0; i < c.hist.n; i++) {
      const OpRec& o = c.hist.ops[i];
      if (o.status < 0) continue;
      if (c.hist.weak && o.status == 0) continue; // see bqueues.cpp: empty/full answers are not part of C03
      ops.push_back(i);
      sh = (sh ^ (uint64_t)(o.kind * 31 + o.status * 7 + o.r0)) * 1099511628211ULL;
      if (o.kind == OP_PUSH) {
        if (o.status == 1) pushed[o.a & 255]++;
      } else if (o.status == 1) {
        if (o.r0 <= 0 || o.r0 > 255) return c.fail("invented-value", "pop returned %ld which was never pushed", (long)o.r0);
        popped[o.r0]++;
      }
    }
    (void)max_overtake;
    for (int i : ops)
      for (int j : ops)
        if (i != j && !c.hist.precedes(c.hist.ops[i], c.hist.ops[j]) && !c.hist.precedes(c.hist.ops[j], c.hist.ops[i])) m.overlap[i]++;
    for (int v = 0; v < 256; v++) {
      if (popped[v] > 1) return c.fail("duplicated-element", "value %d was returned by %d pops", v, popped[v]);
      if (popped[v] && !pushed[v]) return c.fail("invented-value", "value %d popped but never successfully pushed", v);
      if (pushed[v] && !popped[v]) return c.fail("lost-element", "value %d was accepted but neither popped nor found by the final drain", v);
    }
    c.state_hash = sh;
    if (!m.bounded) {
      check_linearizable(c, *this, m, KModel::State(), ops, "not-k-linearizable");
      return;
    }
    // bounded variant: first the full statement; if that fails, find out whether only the "rejected although
    // never (segments-1)*k+1 values stored" clause is violated (class spurious-full) or conservation/order
    {
      LinChecker<KModel> lc(c.hist, m, ops);
      LinResult r = lc.run(KModel::State());
      if (r.budget) {
        c.checker_budget = true;
        return;
      }
      if (r.ok) return;
    }
    KModel lenient = m;
    lenient.lenient_full = true;
    LinChecker<KModel> lc2(c.hist, lenient, ops);
    LinResult r2 = lc2.run(KModel::State());
    if (r2.ok) {
      if (getenv("XSIM_KFIFO_IGNORE_SPURIOUS_FULL")) return; // development aid: look past known finding D17
      std::string rej;
      for (int i : ops)
        if (c.hist.ops[i].kind == OP_PUSH && c.hist.ops[i].status == 0) {
          std::vector<int> one{i};
          rej += describe_ops(c.hist, *this, one) + " ";
        }
      c.fail("spurious-full", "try_push was rejected although (segments-1)*k+1 = %zu values were never stored at any instant of the call "
             "(history is k-linearizable only if rejections are unconstrained); rejected: %s", (m.segs - 1) * m.k + 1, rej.c_str());
      return;
    }
    check_linearizable(c, *this, m, KModel::State(), ops, "not-k-linearizable");
  }
};
KHarness h;
struct Reg { Reg() { register_harness(&h); } } reg;
} // namespace
XSIM_MAIN()
