// C06 — Kirsch k-FIFO queues (unbounded with reclaimer, bounded): k-relaxed FIFO model
#include "common.hpp"
#include "lincheck.hpp"
#include "reclaimers.hpp"
#include <deque>
#include <optional>
#include <xenium/kirsch_bounded_kfifo_queue.hpp>
#include <xenium/kirsch_kfifo_queue.hpp>

using namespace xsim;
namespace hx_kfifo {
enum { OP_PUSH = 1, OP_TRY_POP = 2, OP_POP = 3, OP_DRAIN = 4, OP_BULK = 5 };
enum { PR_LARGE = 1 };
int g_vals[256];

struct IKQ {
  virtual ~IKQ() = default;
  virtual bool push(int v) = 0;
  virtual bool pop(int kind, int& v) = 0;
  // raw interface for the large-configuration scenario (values outside g_vals)
  virtual bool push_raw(int* p) = 0;
  virtual bool pop_raw(int kind, int*& p) = 0;
};
template <class Q>
struct Unb : IKQ {
  Q q;
  explicit Unb(uint64_t k, uint64_t) : q(k) {}
  bool push(int v) override {
    q.push(&g_vals[v]);
    return true;
  }
  bool push_raw(int* p) override {
    q.push(p);
    return true;
  }
  bool pop_raw(int kind, int*& p) override {
    if (kind == OP_POP) {
      auto r = q.pop();
      if (r) p = *r;
      return r.has_value();
    }
    return q.try_pop(p);
  }
  bool pop(int kind, int& v) override {
    if (kind == OP_POP) {
      auto r = q.pop();
      if (r) v = (int)(*r - g_vals);
      return r.has_value();
    }
    int* p = nullptr;
    bool ok = q.try_pop(p);
    if (ok) v = (int)(p - g_vals);
    return ok;
  }
};
template <class Q>
struct Bnd : IKQ {
  Q q;
  Bnd(uint64_t k, uint64_t segs) : q(k, segs) {}
  bool push(int v) override { return q.try_push(&g_vals[v]); }
  bool push_raw(int* p) override { return q.try_push(p); }
  bool pop_raw(int kind, int*& p) override {
    if (kind == OP_POP) {
      auto r = q.pop();
      if (r) p = *r;
      return r.has_value();
    }
    return q.try_pop(p);
  }
  bool pop(int kind, int& v) override {
    if (kind == OP_POP) {
      auto r = q.pop();
      if (r) v = (int)(*r - g_vals);
      return r.has_value();
    }
    int* p = nullptr;
    bool ok = q.try_pop(p);
    if (ok) v = (int)(p - g_vals);
    return ok;
  }
};
struct Cfg {
  const char* name;
  bool bounded;
  IKQ* (*make)(uint64_t, uint64_t);
};
template <class W>
IKQ* mk(uint64_t k, uint64_t s) {
  return new W(k, s);
}
template <class R>
using KQ = xenium::kirsch_kfifo_queue<int*, xenium::policy::reclaimer<R>>;
template <class R>
using KQ0 = xenium::kirsch_kfifo_queue<int*, xenium::policy::reclaimer<R>, xenium::policy::padding_bytes<0>>;
const Cfg cfgs[] = {
  {"kfifo/hp_s3_0_0", false, mk<Unb<KQ<rc::HP_S<3, 0, 0>>>>},
  {"kfifo/ebr0", false, mk<Unb<KQ<rc::EBR<0>>>>},
  {"kfifo/stamp", false, mk<Unb<KQ<rc::STAMP>>>},
  {"kfifo_pad0/nebr1", false, mk<Unb<KQ0<rc::NEBR<1>>>>},
  {"kfifo/he_d1_1_0", false, mk<Unb<KQ<rc::HE_D<1, 1, 0>>>>},
  {"bounded_kfifo", true, mk<Bnd<xenium::kirsch_bounded_kfifo_queue<int*>>>},
  {"bounded_kfifo_pad0", true, mk<Bnd<xenium::kirsch_bounded_kfifo_queue<int*, xenium::policy::padding_bytes<0>>>>},
};
constexpr int NCFG = sizeof(cfgs) / sizeof(cfgs[0]);

struct KModel {
  using State = std::deque<int>;
  size_t k = 1;
  bool bounded = false;
  bool lenient_full = false; // second pass: a rejected push is always admissible
  bool lenient_overlap_only = false; // third pass: ... but only if it overlaps another push (the mechanism of finding D17)
  std::vector<char> overlaps_push;
  size_t segs = 1;
  const History* h = nullptr;
  std::vector<int> overlap;
  bool step(State& s, const OpRec& o) const {
    if (o.kind == OP_PUSH) {
      if (o.status == 1) {
        s.push_back((int)o.a);
        return true;
      }
      // bounded: rejected only if at least (segments-1)*k+1 values are stored
      if (!bounded) return false;
      if (lenient_full && (!lenient_overlap_only || overlaps_push[&o - h->ops])) return true;
      return s.size() >= (segs - 1) * k + 1;
    }
    if (o.status == 1) {
      size_t lim = s.size() < k ? s.size() : k;
      for (size_t i = 0; i < lim; i++)
        if (s[i] == (int)o.r0) {
          s.erase(s.begin() + (long)i);
          return true;
        }
      return false;
    }
    if (overlap[&o - h->ops] == 0) return s.empty();
    return s.size() < k;
  }
  bool step_pending(State& s, const OpRec& o) const {
    if (o.kind == OP_PUSH) s.push_back((int)o.a);
    return true;
  }
  void key(const State& s, std::string& kk) const {
    for (int v : s) kk.push_back((char)v);
  }
};

class KHarness : public Harness {
  IKQ* q = nullptr;
  int cur = 0;

public:
  const char* name() const override { return "kfifo"; }
  int num_configs() const override { return NCFG; }
  const char* config_name(int i) const override { return cfgs[i].name; }
  const char* op_name(int k) const override {
    static const char* n[] = {"?", "push", "try_pop", "pop", "drain_pop", "bulk_fill_drain"};
    return k >= 1 && k <= 5 ? n[k] : "?";
  }
  void generate(GenCtx& g, Program& p) override {
    p.config = (int)g.rng.below(NCFG);
    // the k-FIFO algorithms assume sequential consistency (known finding D14): weak executions only in the C03 campaign
    if (strcmp(g.mode, "C03") != 0) g.opt.W = 0;
    // Large configurations (C06 quantifies over every k and segment count the constructor accepts, "including
    // products above 2^16"): a few runs construct a bounded queue with k*segments just above 65536, fill it to
    // capacity, drain it and move on past the index wrap-around, single-threaded (OP_BULK in setup), and then run
    // an ordinary concurrent program on the same queue. Such a run costs as much as several hundred ordinary ones.
    bool large = strcmp(g.mode, "C06") == 0 && g.rng.below(g.tier ? 8000 : 40000) == 0;
    if (large) {
      p.config = NCFG - 1 - (int)g.rng.below(2);
      static const int ks[] = {1, 2, 3, 5, 16, 64, 257, 1024, 2048};
      int k = ks[g.rng.below(sizeof ks / sizeof ks[0])];
      int segs = 65536 / k + 1 + (int)g.rng.below(3);
      int prefill = (int)g.rng.below(6);
      int pre = (int)g.rng.below(4), post = (int)g.rng.below(2 * 3 + 4);
      p.params = {k, segs, prefill, PR_LARGE, pre, post, g.rng.chance(50) ? OP_POP : OP_TRY_POP};
      g.opt.W = 0;
      g.opt.step_cap = 60000000;
      if (k > 64) g.opt.rand_mode = 0; // a fixed start index makes every find_index a linear scan: k/2 steps per call
    }
    bool b = cfgs[p.config].bounded;
    int k = large ? (int)p.params[0] : g.rng.range(1, b ? 3 : 4);
    int segs = large ? (int)p.params[1] : (b ? g.rng.range(1, 4) : 0);
    int prefill = large ? (int)p.params[2] : (int)g.rng.below(b ? (size_t)(k * segs + 1) : 6);
    if (!large) p.params = {k, segs, prefill};
    int nt = g.rng.range(2, (g.tier || g.rng.chance(20)) ? 4 : 3);
    int maxops = g.tier ? 8 : 6;
    int next = prefill + 1;
    p.threads.resize(nt);
    int mix = (int)g.rng.below(3);
    for (int t = 0; t < nt; t++) {
      int n = g.rng.range(1, maxops);
      for (int i = 0; i < n; i++) {
        bool push = mix == 1 ? (t % 2 == 0) : g.rng.chance(mix == 2 ? 35 : 50);
        if (push && next < 120)
          p.threads[t].ops.push_back(Op{OP_PUSH, next++, 0, 0});
        else
          p.threads[t].ops.push_back(Op{g.rng.chance(50) ? OP_TRY_POP : OP_POP, 0, 0, 0});
      }
    }
  }
  void setup(const Program& p) override {
    cur = p.config;
    q = cfgs[p.config].make((uint64_t)p.params[0], (uint64_t)p.params[1]);
    if (p.params.size() > 3 && p.params[3] == PR_LARGE) bulk(p);
    for (int v = 1; v <= p.params[2]; v++) {
      op_begin(OP_PUSH, v, 0, 0, OPF_LOCKFREE);
      bool ok = q->push(v);
      op_end(ok);
    }
  }
  // the large-configuration scenario: everything is checked inline (no operation runs concurrently, so the
  // statement's sequential clauses apply exactly); recorded as one operation, each library call is subject to the
  // solo-step rule on its own (a push that never returns is class solo-no-progress)
  void bulk(const Program& p) {
    const uint64_t k = (uint64_t)p.params[0], segs = (uint64_t)p.params[1];
    const int64_t pre = p.params[4], post = p.params[5];
    const int popkind = (int)p.params[6];
    const uint64_t cap_lo = (segs - 1) * k + 1, cap_hi = segs * k;
    op_begin(OP_BULK, (int64_t)k, (int64_t)segs, pre, OPF_LOCKFREE);
    probe(0);
    int* vals = new int[cap_hi + 2];
    char* gone = new char[cap_hi + 2];
    auto pair = [&](int64_t i) {
      int* v = &vals[i % 7];
      op_progress();
      if (!q->push_raw(v)) xsim::fail("spurious-full", "large configuration k=%lu segments=%lu: try_push rejected on an empty queue", (unsigned long)k, (unsigned long)segs);
      int* r = nullptr;
      op_progress();
      if (!q->pop_raw(popkind, r))
        xsim::fail("lost-element", "large configuration k=%lu segments=%lu: pop reports empty although one value is stored and no operation runs concurrently", (unsigned long)k, (unsigned long)segs);
      if (r != v) xsim::fail("invented-value", "large configuration: pop returned a pointer that is not the only stored value");
    };
    for (int64_t i = 0; i < pre; i++) pair(i);
    uint64_t n = 0;
    for (;; n++) {
      if (n > cap_hi) xsim::fail("invented-value", "large configuration k=%lu segments=%lu: more than k*segments values accepted", (unsigned long)k, (unsigned long)segs);
      gone[n] = 0;
      op_progress();
      if (!q->push_raw(&vals[n])) break;
    }
    if (n < cap_lo)
      xsim::fail("spurious-full", "large configuration k=%lu segments=%lu: try_push rejected with %lu values stored, fewer than (segments-1)*k+1 = %lu, and no operation running concurrently",
                 (unsigned long)k, (unsigned long)segs, (unsigned long)n, (unsigned long)cap_lo);
    uint64_t lo = 0;
    for (uint64_t j = 0; j < n; j++) {
      int* r = nullptr;
      op_progress();
      if (!q->pop_raw(popkind, r))
        xsim::fail("lost-element", "large configuration k=%lu segments=%lu: pop reports empty after %lu of %lu stored values were returned", (unsigned long)k, (unsigned long)segs,
                   (unsigned long)j, (unsigned long)n);
      if (r < vals || r >= vals + n) xsim::fail("invented-value", "large configuration: pop returned a pointer that was never pushed");
      uint64_t idx = (uint64_t)(r - vals);
      if (gone[idx]) xsim::fail("duplicated-element", "large configuration k=%lu segments=%lu: value %lu returned twice", (unsigned long)k, (unsigned long)segs, (unsigned long)idx);
      uint64_t older = 0;
      for (uint64_t i = lo; i < idx; i++) older += gone[i] ? 0 : 1;
      if (older >= k)
        xsim::fail("not-k-linearizable", "large configuration k=%lu segments=%lu: pop returned value %lu while %lu older values were still stored", (unsigned long)k, (unsigned long)segs,
                   (unsigned long)idx, (unsigned long)older);
      gone[idx] = 1;
      while (lo < n && gone[lo]) lo++;
    }
    {
      int* r = nullptr;
      op_progress();
      if (q->pop_raw(popkind, r)) xsim::fail("invented-value", "large configuration: pop succeeds on an empty queue");
    }
    for (int64_t i = 0; i < post; i++) pair(i);
    delete[] vals;
    delete[] gone;
    op_end(1, (int64_t)n);
  }
  void exec(int, const Op& op) override {
    if (op.kind == OP_PUSH) {
      op_begin(OP_PUSH, op.a, 0, 0, OPF_LOCKFREE);
      bool ok = q->push((int)op.a);
      op_end(ok);
    } else {
      int v = 0;
      op_begin(op.kind, 0, 0, 0, OPF_LOCKFREE);
      bool ok = q->pop(op.kind, v);
      op_end(ok, v);
    }
  }
  void teardown(int) override {
    for (;;) {
      int v = 0;
      op_begin(OP_DRAIN, 0, 0, 0, OPF_LOCKFREE);
      bool ok = q->pop(OP_TRY_POP, v);
      op_end(ok, v);
      if (!ok) break;
    }
    delete q;
    q = nullptr;
  }
  void check(CheckCtx& c) override {
    KModel m;
    m.k = (size_t)c.prog.params[0];
    m.bounded = cfgs[c.prog.config].bounded;
    m.segs = (size_t)c.prog.params[1];
    m.h = &c.hist;
    m.overlap.assign(c.hist.n, 0);
    std::vector<int> ops;
    uint64_t sh = 1469598103934665603ULL;
    int pushed[256] = {0}, popped[256] = {0};
    long max_overtake = 0;
    for (int i = 0; i < c.hist.n; i++) {
      const OpRec& o = c.hist.ops[i];
      if (o.status < 0 || o.kind == OP_BULK) continue;
      if (c.hist.weak && o.status == 0) continue; // see bqueues.cpp: empty/full answers are not part of C03
      ops.push_back(i);
      sh = (sh ^ (uint64_t)(o.kind * 31 + o.status * 7 + o.r0)) * 1099511628211ULL;
      if (o.kind == OP_PUSH) {
        if (o.status == 1) pushed[o.a & 255]++;
      } else if (o.status == 1) {
        if (o.r0 <= 0 || o.r0 > 255) return c.fail("invented-value", "pop returned %ld which was never pushed", (long)o.r0);
        popped[o.r0]++;
      }
    }
    (void)max_overtake;
    for (int i : ops)
      for (int j : ops)
        if (i != j && !c.hist.precedes(c.hist.ops[i], c.hist.ops[j]) && !c.hist.precedes(c.hist.ops[j], c.hist.ops[i])) m.overlap[i]++;
    for (int v = 0; v < 256; v++) {
      if (popped[v] > 1) return c.fail("duplicated-element", "value %d was returned by %d pops", v, popped[v]);
      if (popped[v] && !pushed[v]) return c.fail("invented-value", "value %d popped but never successfully pushed", v);
      if (pushed[v] && !popped[v]) return c.fail("lost-element", "value %d was accepted but neither popped nor found by the final drain", v);
    }
    c.state_hash = sh;
    if (!m.bounded) {
      check_linearizable(c, *this, m, KModel::State(), ops, "not-k-linearizable");
      return;
    }
    // bounded variant: first the full statement; if that fails, find out whether only the "rejected although
    // never (segments-1)*k+1 values stored" clause is violated (class spurious-full) or conservation/order
    {
      LinChecker<KModel> lc(c.hist, m, ops);
      LinResult r = lc.run(KModel::State());
      if (r.budget) {
        c.checker_budget = true;
        return;
      }
      if (r.ok) return;
    }
    KModel lenient = m;
    lenient.lenient_full = true;
    LinChecker<KModel> lc2(c.hist, lenient, ops);
    LinResult r2 = lc2.run(KModel::State());
    if (r2.ok) {
      // Finding D17 needs another push whose item is in the ring tentatively while the rejected push looks at it. Is the
      // history explained if only rejected pushes that overlap another push are unconstrained? If not, a push was
      // rejected below the bound without any concurrent push: a different defect (class spurious-full-no-concurrent-push).
      KModel narrow = lenient;
      narrow.lenient_overlap_only = true;
      narrow.overlaps_push.assign(c.hist.n, 0);
      for (int i : ops)
        for (int j = 0; j < c.hist.n; j++) {
          const OpRec& a = c.hist.ops[i];
          const OpRec& b = c.hist.ops[j];
          if (i == j || b.kind != OP_PUSH) continue;
          if (!c.hist.precedes(a, b) && !c.hist.precedes(b, a)) narrow.overlaps_push[i] = 1;
        }
      LinChecker<KModel> lc3(c.hist, narrow, ops);
      LinResult r3 = lc3.run(KModel::State());
      if (!r3.budget && !r3.ok) {
        std::string rej;
        for (int i : ops)
          if (c.hist.ops[i].kind == OP_PUSH && c.hist.ops[i].status == 0 && !narrow.overlaps_push[i]) {
            std::vector<int> one{i};
            rej += describe_ops(c.hist, *this, one) + " ";
          }
        c.fail("spurious-full-no-concurrent-push", "try_push was rejected although (segments-1)*k+1 = %zu values were never stored at any instant of the call, "
               "and no other push overlaps it (k=%zu, segments=%zu); rejected without a concurrent push: %s", (m.segs - 1) * m.k + 1, m.k, m.segs, rej.c_str());
        return;
      }
      if (getenv("XSIM_KFIFO_IGNORE_SPURIOUS_FULL")) return; // development aid: look past known finding D17
      std::string rej;
      for (int i : ops)
        if (c.hist.ops[i].kind == OP_PUSH && c.hist.ops[i].status == 0) {
          std::vector<int> one{i};
          rej += describe_ops(c.hist, *this, one) + " ";
        }
      c.fail("spurious-full", "try_push was rejected although (segments-1)*k+1 = %zu values were never stored at any instant of the call "
             "(history is k-linearizable only if rejections are unconstrained); rejected: %s", (m.segs - 1) * m.k + 1, rej.c_str());
      return;
    }
    check_linearizable(c, *this, m, KModel::State(), ops, "not-k-linearizable");
  }
};
KHarness h;
struct Reg { Reg() { register_harness(&h); hx::register_reclaimer_probes(); xsim::fn_probe("k-FIFO: advance_head executed", "12advance_head"); xsim::fn_probe("k-FIFO: advance_tail executed", "12advance_tail"); xsim::fn_pair_probe("k-FIFO: committed() of a pusher overlaps advance_head", "9committed", "12advance_head"); xsim::fn_pair_probe("k-FIFO: two advance_tail overlap", "12advance_tail", "12advance_tail"); xsim::fn_pair_probe("k-FIFO: find_index of a pusher overlaps advance_head", "10find_index", "12advance_head"); xsim::fn_probe("bounded k-FIFO: committed() of a pusher executed (region checks)", "26kirsch_bounded_kfifo_queue&9committed"); xsim::probe_name(0, "large_configuration_runs(k*segments>65536, filled to capacity)"); } } reg;
} // namespace
XSIM_MAIN()
