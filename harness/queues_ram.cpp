#include "queues_common.hpp"
#include <xenium/ramalhete_queue.hpp>
using namespace qh;
namespace hx_queues_ram {
template <class R, unsigned E, unsigned PR>
using RQ = xenium::ramalhete_queue<int*, xenium::policy::reclaimer<R>, xenium::policy::entries_per_node<E>, xenium::policy::pop_retries<PR>>;
const Config cfgs[] = {
  {"ram/e1r0/hp_s3_0_0", make_ptr<RQ<rc::HP_S<3, 0, 0>, 1, 0>>},
  {"ram/e2r0/hp_d1_1_1", make_ptr<RQ<rc::HP_D<1, 1, 1>, 2, 0>>},
  {"ram/e2r2/ebr0", make_ptr<RQ<rc::EBR<0>, 2, 2>>},
  {"ram/e4r0/nebr1", make_ptr<RQ<rc::NEBR<1>, 4, 0>>},
  {"ram/e1r2/stamp", make_ptr<RQ<rc::STAMP, 1, 2>>},
  {"ram/e2r0/stamp", make_ptr<RQ<rc::STAMP, 2, 0>>},
  {"ram/e4r2/lfrc", make_ptr<RQ<rc::LFRC, 4, 2>>},
  {"ram/e2r0/he_s2_0_0", make_ptr<RQ<rc::HE_S<2, 0, 0>, 2, 0>>},
  {"ram/e1r0/qsbr", make_ptr<RQ<rc::QSBR, 1, 0>>},
  {"ram/e2r2/debra0", make_ptr<RQ<rc::DEBRA<0>, 2, 2>>},
  // node sizes that are not powers of two ("recommended", not required), and a multiple of the internal index step 11
  {"ram/e3r0/ebr0", make_ptr<RQ<rc::EBR<0>, 3, 0>>},
  {"ram/e11r1/nebr1", make_ptr<RQ<rc::NEBR<1>, 11, 1>>},
  {"ram/e2r0/backoff_exp2/ebr0", make_ptr<xenium::ramalhete_queue<int*, xenium::policy::reclaimer<rc::EBR<0>>, xenium::policy::entries_per_node<2>, xenium::policy::pop_retries<0>,
                                                                    xenium::policy::backoff<xenium::exponential_backoff<2>>>>},
};
QueueHarness h("queues_ram", cfgs, sizeof(cfgs) / sizeof(cfgs[0]));
struct Reg { Reg() { xsim::register_harness(&h); hx::register_reclaimer_probes(); xsim::fn_pair_probe("ramalhete_queue: push overlaps pop", "ramalhete_queue&4pushE", "ramalhete_queue&3popE"); xsim::fn_pair_probe("ramalhete_queue: two pushes overlap", "ramalhete_queue&4pushE", "ramalhete_queue&4pushE"); } } reg;
} // namespace
XSIM_MAIN()
