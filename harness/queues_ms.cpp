#include "queues_common.hpp"
#include <xenium/michael_scott_queue.hpp>
using namespace qh;
namespace hx_queues_ms {
template <class R>
using MS = xenium::michael_scott_queue<int, xenium::policy::reclaimer<R>>;
const Config cfgs[] = {
  {"ms<string>/nebr1", make_str<xenium::michael_scott_queue<std::string, xenium::policy::reclaimer<rc::NEBR<1>>>>},
  {"ms/lfrc", make_int<MS<rc::LFRC>>},
  {"ms/lfrc_tl2", make_int<MS<rc::LFRC_TL2>>},
  {"ms/hp_s2_0_0", make_int<MS<rc::HP_S<2, 0, 0>>>},
  {"ms/hp_d1_1_1", make_int<MS<rc::HP_D<1, 1, 1>>>},
  {"ms/he_s2_0_0", make_int<MS<rc::HE_S<2, 0, 0>>>},
  {"ms/he_d1_1_0", make_int<MS<rc::HE_D<1, 1, 0>>>},
  {"ms/ebr0", make_int<MS<rc::EBR<0>>>},
  {"ms/nebr1", make_int<MS<rc::NEBR<1>>>},
  {"ms/debra0", make_int<MS<rc::DEBRA<0>>>},
  {"ms/qsbr", make_int<MS<rc::QSBR>>},
  {"ms/stamp", make_int<MS<rc::STAMP>>},
  // non-default backoff policies (policy::backoff is part of every container's configuration space)
  {"ms/backoff_exp2/ebr0", make_int<xenium::michael_scott_queue<int, xenium::policy::reclaimer<rc::EBR<0>>, xenium::policy::backoff<xenium::exponential_backoff<2>>>>},
  {"ms/backoff_exp2/lfrc_tl2", make_int<xenium::michael_scott_queue<int, xenium::policy::reclaimer<rc::LFRC_TL2>, xenium::policy::backoff<xenium::exponential_backoff<2>>>>},
  {"ms/backoff_single/he_s2_0_0", make_int<xenium::michael_scott_queue<int, xenium::policy::reclaimer<rc::HE_S<2, 0, 0>>, xenium::policy::backoff<xenium::single_backoff>>>},
  {"ms/backoff_single/nebr1", make_int<xenium::michael_scott_queue<int, xenium::policy::reclaimer<rc::NEBR<1>>, xenium::policy::backoff<xenium::single_backoff>>>},
  {"ms/backoff_single/lfrc", make_int<xenium::michael_scott_queue<int, xenium::policy::reclaimer<rc::LFRC>, xenium::policy::backoff<xenium::single_backoff>>>},
  {"ms/backoff_single/hp_s2_0_0", make_int<xenium::michael_scott_queue<int, xenium::policy::reclaimer<rc::HP_S<2, 0, 0>>, xenium::policy::backoff<xenium::single_backoff>>>},
};
QueueHarness h("queues_ms", cfgs, sizeof(cfgs) / sizeof(cfgs[0]));
struct Reg { Reg() { xsim::register_harness(&h); hx::register_reclaimer_probes(); xsim::fn_pair_probe("michael_scott_queue: push overlaps pop_node", "michael_scott_queue&4pushE", "8pop_node"); xsim::fn_pair_probe("michael_scott_queue: two pop_node overlap", "8pop_node", "8pop_node"); } } reg;
} // namespace
XSIM_MAIN()
