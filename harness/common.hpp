// common helpers for harness translation units (instrumented code)
#pragma once
#include "xsim.hpp"
#include <atomic>
#include <cstdint>
#include <cstdio>
#include <cstring>
#include <vector>

#define XSIM_MAIN() \
  int main(int argc, char** argv) { return xsim::main_entry(argc, argv); }

namespace hx {
using xsim::Op;
using xsim::OpRec;
using xsim::Program;
using xsim::ThreadProg;

template <class H>
struct Registrar {
  H h;
  Registrar() { xsim::register_harness(&h); }
};
} // namespace hx
