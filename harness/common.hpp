// common helpers for harness translation units (instrumented code)
#pragma once
#include "xsim.hpp"
#include <atomic>
#include <cstdint>
#include <cstdio>
#include <cstring>
#include <vector>

#define XSIM_MAIN() \
  int main(int argc, char** argv) { return xsim::main_entry(argc, argv); }

namespace hx {
using xsim::Op;
using xsim::OpRec;
using xsim::Program;
using xsim::ThreadProg;

template <class H>
struct Registrar {
  H h;
  Registrar() { xsim::register_harness(&h); }
};

// Reach probes shared by every harness whose structures use a reclaimer (function reach probes of the runtime, see
// xsim.hpp). All optional: a binary only reports the reclaimers it instantiates.
inline void register_reclaimer_probes() {
  using xsim::fn_pair_probe;
  using xsim::fn_probe;
  fn_probe("reclaimer: scan of retired nodes / of the thread list executed", "4scanE", true);
  fn_probe("reclaimer: exiting thread abandons its retired nodes (abandon_retired_nodes)", "21abandon_retired_nodes", true);
  fn_probe("reclaimer: abandoned retired nodes adopted by another thread", "29adopt_abandoned_retired_nodes", true);
  fn_probe("reclaimer: control block of an exited thread re-used (try_adopt)", "9try_adopt", true);
  fn_probe("hazard_pointer/hazard_eras: dynamic block of slots allocated", "allocate_new_hazard", true);
  fn_probe("generic_epoch_based: update_global_epoch executed", "19update_global_epoch", true);
  fn_probe("generic_epoch_based: orphaned retire lists adopted (adopt_orphans)", "13adopt_orphans", true);
  fn_probe("quiescent_state_based: try_update_epoch executed", "16try_update_epoch", true);
  fn_probe("stamp_it: remove_from_prev_list executed", "21remove_from_prev_list", true);
  fn_probe("stamp_it: remove_from_next_list executed", "21remove_from_next_list", true);
  fn_probe("stamp_it: process_global_nodes executed", "20process_global_nodes", true);
  fn_probe("lock_free_ref_count: node pushed to the free list (recycling)", "17push_to_free_list", true);
  fn_pair_probe("reclaimer: scan overlaps a guard acquisition of another thread", "4scanE", "guard_ptr&7acquireE", true);
  fn_pair_probe("reclaimer: thread exit (thread_data destructor) overlaps a scan of another thread", "thread_dataD2Ev", "4scanE", true);
  fn_pair_probe("reclaimer: two thread exits overlap", "thread_dataD2Ev", "thread_dataD2Ev", true);
  fn_pair_probe("reclaimer: abandon_retired_nodes overlaps adopt_abandoned_retired_nodes", "21abandon_retired_nodes", "29adopt_abandoned_retired_nodes", true);
  fn_pair_probe("reclaimer: try_adopt overlaps a thread exit", "9try_adopt", "thread_dataD2Ev", true);
  fn_pair_probe("generic_epoch_based: update_global_epoch overlaps a critical-region entry", "19update_global_epoch", "14enter_critical", true);
  fn_pair_probe("generic_epoch_based: thread exit overlaps update_global_epoch", "thread_dataD2Ev", "19update_global_epoch", true);
  fn_pair_probe("quiescent_state_based: two try_update_epoch overlap", "16try_update_epoch", "16try_update_epoch", true);
  fn_pair_probe("stamp_it: thread_order_queue push overlaps remove", "thread_order_queue&4pushE", "thread_order_queue&6removeE", true);
  fn_pair_probe("stamp_it: two removals overlap", "thread_order_queue&6removeE", "thread_order_queue&6removeE", true);
}
} // namespace hx
