#include "recl_common.hpp"
using namespace rh;
namespace hx_recl_b {
namespace xr = xenium::reclamation;
using ebr0 = rc::EBR<0>; using ebr2 = rc::EBR<2>; using nebr0 = rc::NEBR<0>; using nebr1 = rc::NEBR<1>; using debra0 = rc::DEBRA<0>; using debra1 = rc::DEBRA<1>;
using geb_a = rc::GEB<0, xr::scan::all_threads, xr::abandon::always, xr::region_extension::none>;
using geb_b = rc::GEB<1, xr::scan::n_threads<2>, xr::abandon::when_exceeds_threshold<2>, xr::region_extension::lazy>;
using geb_c = rc::GEB<0, xr::scan::one_thread, xr::abandon::always, xr::region_extension::eager>;
using geb_d = rc::GEB<2, xr::scan::all_threads, xr::abandon::when_exceeds_threshold<2>, xr::region_extension::lazy>;
using geb_e = rc::GEB<1, xr::scan::n_threads<2>, xr::abandon::never, xr::region_extension::none>;
#define CFG(NAME, TYPE, CYC) {{NAME, false, 0, false, CYC, false}, make_world<TYPE, false>}
const ReclHarness::Cfg cfgs[] = {
  CFG("ebr_f0", ebr0, 10), CFG("ebr_f2", ebr2, 18), CFG("nebr_f0", nebr0, 10), CFG("nebr_f1", nebr1, 14),
  CFG("debra_f0", debra0, 60), CFG("debra_f1", debra1, 100),
  CFG("geb_all_always_none_f0", geb_a, 10), CFG("geb_n2_thr2_lazy_f1", geb_b, 60), CFG("geb_one_always_eager_f0", geb_c, 60),
  CFG("geb_all_thr2_lazy_f2", geb_d, 18), CFG("geb_n2_never_none_f1", geb_e, 60),
};
ReclHarness h("recl_b", cfgs, sizeof(cfgs) / sizeof(cfgs[0]));
struct Reg { Reg() { xsim::register_harness(&h); xsim::probe_name(3, "destructor run by the reclaimer unlinked and retired a shared object"); hx::register_reclaimer_probes(); } } reg;
} // namespace
XSIM_MAIN()
