// C10 / C11 — vyukov_hash_map: linearizable map with lock-free reads, resizing, exclusive iterators
#include "hm_common.hpp"
#include <xenium/vyukov_hash_map.hpp>

using namespace xsim;
using namespace hm;
namespace hx_vmap {
namespace xp = xenium::policy;

enum { OP_EXTRACT = 20, OP_TRY_GET = 21, OP_FIND_IT = 22, OP_ERASE_FOUND = 23 }; // 23: erase(find(key))

struct IVM {
  virtual ~IVM() = default;
  virtual bool emplace(int k, int v) = 0;
  virtual std::pair<bool, int> get_or_emplace(int k, int v, bool lazy) = 0;
  virtual bool erase(int k) = 0;
  virtual std::pair<bool, int> extract(int k) = 0;
  virtual std::pair<bool, int> try_get(int k) = 0;
  virtual std::pair<bool, int> find_it(int k) = 0;
  virtual std::pair<bool, int> erase_found(int k) = 0;
  virtual void traverse(const IHM::TCb& cb, bool move_assign, int stop_after) = 0;
};

// key / value conversions -------------------------------------------------------------------------
template <class K> struct KC;
template <> struct KC<int> {
  static int to(int k) { return k; }
  static int from(int k) { return k; }
};
template <> struct KC<std::string> {
  static std::string to(int k) { return "key#" + std::to_string(k); }
  static int from(const std::string& s) { return atoi(s.c_str() + 4); }
};

template <class R>
struct Obj : R::template enable_concurrent_ptr<Obj<R>> {
  int v;
  uint64_t pat;
  explicit Obj(int x) : v(x), pat(~(uint64_t)x * 0x9e3779b97f4a7c15ULL) {}
  ~Obj() { pat = 0xdead; }
  int get() const {
    if (pat != ~(uint64_t)v * 0x9e3779b97f4a7c15ULL) xsim::fail("value-corrupt", "managed value object is corrupted (v=%d)", v);
    return v;
  }
};

// value policies: how to build a value_type from an int and read it back through an accessor
struct IntVal {
  using type = int;
  template <class M> static int make(int v) { return v; }
  template <class A> static int read(A& a) { return *a; }
  template <class V> static int read_val(const V& v) { return v; }
  static void dispose(int) {}
};
struct StrVal {
  using type = std::string;
  template <class M> static std::string make(int v) { return "value-number-" + std::to_string(v); }
  static int parse(const std::string& s) {
    if (s.compare(0, 13, "value-number-") != 0) xsim::fail("value-corrupt", "string value is torn or foreign: '%s'", s.c_str());
    return atoi(s.c_str() + 13);
  }
  template <class A> static int read(A& a) { return parse(*a); }
  template <class V> static int read_val(const V& v) { return parse(v); }
  static void dispose(const std::string&) {}
};
template <class R>
struct PtrVal {
  using type = xenium::managed_ptr<Obj<R>, R>;
  template <class M> static Obj<R>* make(int v) { return new Obj<R>(v); }
  template <class A> static int read(A& a) { return a->get(); }
  static int read_val(Obj<R>* p) { return p->get(); }
  static void dispose(Obj<R>* p) { delete p; }
};

template <class K, class VP, class R, class... P>
struct VM : IVM {
  using Map = xenium::vyukov_hash_map<K, typename VP::type, xp::reclaimer<R>, P...>;
  Map m;
  explicit VM(size_t cap) : m(cap) {}
  bool emplace(int k, int v) override {
    auto val = VP::template make<Map>(v);
    auto copy = val;
    bool ok = m.emplace(KC<K>::to(k), std::move(val));
    if (!ok) VP::dispose(copy); // a rejected managed object stays with the caller
    return ok;
  }
  std::pair<bool, int> get_or_emplace(int k, int v, bool lazy) override {
    typename Map::accessor acc;
    bool inserted;
    if (lazy) {
      bool called = false;
      std::tie(acc, inserted) = m.get_or_emplace_lazy(KC<K>::to(k), [&]() {
        called = true;
        return VP::template make<Map>(v);
      });
      if (called != inserted) xsim::fail("factory-misuse", "get_or_emplace_lazy: factory called=%d but inserted=%d", called, inserted);
    } else {
      auto val = VP::template make<Map>(v);
      auto copy = val;
      std::tie(acc, inserted) = m.get_or_emplace(KC<K>::to(k), std::move(val));
      if (!inserted) VP::dispose(copy);
    }
    int r = VP::read(acc);
    return {inserted, r};
  }
  bool erase(int k) override { return m.erase(KC<K>::to(k)); }
  std::pair<bool, int> extract(int k) override {
    typename Map::accessor acc;
    bool ok = m.extract(KC<K>::to(k), acc);
    int r = ok ? VP::read(acc) : 0;
    return {ok, r};
  }
  std::pair<bool, int> try_get(int k) override {
    typename Map::accessor acc;
    bool ok = m.try_get_value(KC<K>::to(k), acc);
    int r = ok ? VP::read(acc) : 0;
    return {ok, r};
  }
  std::pair<bool, int> find_it(int k) override {
    auto it = m.find(KC<K>::to(k));
    if (it == m.end()) return {false, 0};
    auto&& e = *it;
    if (KC<K>::from(e.first) != k) xsim::fail("wrong-element", "find(%d) returned an iterator to another key", k);
    int r = VP::read_val(e.second);
    it.reset();
    return {true, r};
  }
  std::pair<bool, int> erase_found(int k) override {
    auto it = m.find(KC<K>::to(k));
    if (it == m.end()) return {false, 0};
    int r;
    {
      auto&& e = *it;
      if (KC<K>::from(e.first) != k) xsim::fail("wrong-element", "find(%d) returned an iterator to another key", k);
      r = VP::read_val(e.second);
    }
    m.erase(it);
    it.reset();
    return {true, r};
  }
  // stop_after > 0: the traversal is abandoned after that many elements by assigning the past-the-end iterator to the
  // positioned one (`it = map.end()`), the idiom for "done with this iterator" besides reset(): the bucket lock has
  // to be released by it like by reset() ("after the iterator is reset/destroyed every bucket lock is released")
  void traverse(const IHM::TCb& cb, bool move_assign, int stop_after) override {
    int seen = 0;
    cb.pre_step();
    auto it = m.begin();
    cb.post_step();
    if (move_assign) {
      typename Map::iterator other;
      other = std::move(it);
      it = std::move(other);
    }
    while (it != m.end()) {
      int k, v;
      {
        auto&& e = *it;
        k = KC<K>::from(e.first);
        v = VP::read_val(e.second);
      }
      if (cb.on_yield(k, v)) {
        m.erase(it);
        int nk = -1;
        if (it != m.end()) {
          auto&& e = *it;
          nk = KC<K>::from(e.first);
        }
        cb.post_erase(nk);
      } else {
        if (stop_after > 0 && ++seen == stop_after) {
          cb.pre_step();
          it = m.end();
          cb.post_step();
          break;
        }
        cb.pre_step();
        ++it;
        cb.post_step();
      }
    }
  }
};

struct ConstHash { template <class T> std::size_t operator()(const T&) const { return 5; } };
struct StrLowHash { std::size_t operator()(const std::string& s) const { return (std::size_t)(atoi(s.c_str() + 4)); } };

struct Cfg {
  const char* name;
  IVM* (*make)(size_t);
};
template <class W> IVM* mkv(size_t c) { return new W(c); }
using R1 = rc::EBR<0>;
using R2 = rc::HP_S<5, 0, 0>;
using R3 = rc::STAMP;
const Cfg cfgs[] = {
  {"vmap<int,int>/ebr0", mkv<VM<int, IntVal, R1>>},
  {"vmap<int,int>/consthash/hp", mkv<VM<int, IntVal, R2, xp::hash<ConstHash>>>},
  {"vmap<int,int>/stamp", mkv<VM<int, IntVal, R3>>},
  {"vmap<int,string>/ebr0", mkv<VM<int, StrVal, R1>>},
  {"vmap<int,string>/consthash/hp", mkv<VM<int, StrVal, R2, xp::hash<ConstHash>>>},
  {"vmap<int,managed>/ebr0", mkv<VM<int, PtrVal<R1>, R1>>},
  {"vmap<int,managed>/hp", mkv<VM<int, PtrVal<R2>, R2>>},
  {"vmap<string,int>/lowhash/ebr0", mkv<VM<std::string, IntVal, R1, xp::hash<StrLowHash>>>},
  {"vmap<string,int>/consthash/stamp", mkv<VM<std::string, IntVal, R3, xp::hash<ConstHash>>>},
  {"vmap<string,managed>/lowhash/ebr0", mkv<VM<std::string, PtrVal<R1>, R1, xp::hash<StrLowHash>>>},
  {"vmap<string,managed>/consthash/hp", mkv<VM<std::string, PtrVal<R2>, R2, xp::hash<ConstHash>>>},
  // non-default backoff policies
  {"vmap<int,int>/backoff_exp2/ebr0", mkv<VM<int, IntVal, R1, xp::backoff<xenium::exponential_backoff<2>>>>},
  {"vmap<int,string>/consthash/backoff_single/hp", mkv<VM<int, StrVal, R2, xp::hash<ConstHash>, xp::backoff<xenium::single_backoff>>>},
  // values of a <trivial key, non-trivial value> map live in nodes managed by a reclaimer of their own
  {"vmap<int,string>/valrecl_hp/ebr0", mkv<VM<int, StrVal, R1, xp::value_reclaimer<R2>>>},
};
constexpr int NCFG = sizeof(cfgs) / sizeof(cfgs[0]);

struct VModel : MapModel {
  bool step(State& s, const OpRec& o) const {
    auto it = s.find((int)o.a);
    bool present = it != s.end();
    switch (o.kind) {
      case OP_EXTRACT:
        if (o.status == 1) {
          if (!present || it->second != (int)o.r0) return false;
          s.erase(it);
          return true;
        }
        return !present;
      case OP_TRY_GET:
      case OP_FIND_IT:
        if (o.status == 1) return present && it->second == (int)o.r0;
        return !present;
      case OP_ERASE_FOUND:
        if (o.status == 1) {
          if (!present || it->second != (int)o.r0) return false;
          s.erase(it);
          return true;
        }
        return !present;
    }
    return MapModel::step(s, o);
  }
  bool step_pending(State& s, const OpRec& o) const {
    State c = s;
    OpRec t = o;
    t.status = 1;
    t.r0 = o.b;
    if (o.kind == OP_EXTRACT || o.kind == OP_ERASE || o.kind == OP_ERASE_FOUND) {
      s.erase((int)o.a);
      return true;
    }
    if (step(c, t)) s = c;
    return true;
  }
};

class VHarness : public Harness {
  IVM* m = nullptr;
  int nkeys = 4;
  int stride = 1;
  int traversal_id = 0;
  bool constlayout = false;

public:
  const char* name() const override { return "vmap"; }
  int num_configs() const override { return NCFG; }
  const char* config_name(int i) const override { return cfgs[i].name; }
  const char* op_name(int k) const override {
    switch (k) {
      case OP_EMPLACE: return "emplace";
      case OP_GET_OR_EMPLACE: return "get_or_emplace";
      case OP_GET_OR_EMPLACE_LAZY: return "get_or_emplace_lazy";
      case OP_ERASE: return "erase";
      case OP_EXTRACT: return "extract";
      case OP_TRY_GET: return "try_get_value";
      case OP_FIND_IT: return "find";
      case OP_ERASE_FOUND: return "erase(find)";
      case OP_ERASE_POS: return "erase(iterator)";
      case OP_ITER_NEXT: return "iter_next";
      case OP_TRAVERSE: return "traverse";
      case OP_YIELD: return "yield";
      case OP_FINAL: return "final";
      case OP_T_BEGIN: return "traversal_begin";
      case OP_T_END: return "traversal_end";
    }
    return "?";
  }
  void generate(GenCtx& g, Program& p) override {
    p.config = (int)g.rng.below(NCFG);
    // known finding D16 (node dereferenced before validation with hazard pointers): keep it exercised, but rarely
    if (strstr(cfgs[p.config].name, "<string,managed>") && strstr(cfgs[p.config].name, "/hp") && g.rng.chance(85)) p.config = (int)g.rng.below(NCFG - 1);
    // C11 programs (one traverser holding bucket locks, one lock-free reader, updaters) are also two fifths of the campaign
    // runs (C03, C16): iterator unlocks are release operations like every other unlock, and try_get_value has to stay
    // lock-free while an iterator is parked on its bucket
    bool c11 = !strcmp(g.mode, "C11") || (strcmp(g.mode, "C10") && g.rng.chance(40));
    nkeys = g.rng.range(4, 7);
    static const int caps[] = {1, 2, 4, 256, 256};
    int cap = caps[g.rng.below(5)];
    int layout = (int)g.rng.below(2); // 0: keys 0..n-1, 1: keys i*256 (share a bucket for every capacity <= 256)
    if (g.rng.chance(12)) {
      // dense: many keys that collide in one bucket of a table with extension buckets (128 buckets, 10 extension
      // items): the extension pool runs dry, grow() has to redistribute chains that are still longer than a bucket
      nkeys = g.rng.range(14, 22);
      cap = 128;
      layout = 2;
    }
    int prefill = (int)g.rng.below(nkeys + 1);
    if (layout == 2 && g.rng.chance(70)) prefill = g.rng.range(10, nkeys);
    bool seq = !c11 && g.rng.chance(8);
    p.params = {nkeys, cap, layout, prefill, c11 ? 1 : 0};
    int nextv = 100;
    int nt = seq ? 1 : g.rng.range(2, (g.tier || g.rng.chance(20)) ? 4 : 3);
    p.threads.resize(nt);
    for (int t = 0; t < nt; t++) {
      if (c11 && t == 0) {
        int ntr = g.rng.range(1, 2);
        for (int i = 0; i < ntr; i++)
          p.threads[t].ops.push_back(Op{OP_TRAVERSE, g.rng.chance(60) ? (int64_t)g.rng.below(nkeys) : -1, (int64_t)g.rng.below(2), g.rng.chance(25) ? (int64_t)g.rng.range(1, 3) : 0});
        continue;
      }
      bool reader = c11 && t == 1; // readers only use the lock-free try_get_value
      int n = seq ? g.rng.range(60, g.tier ? 400 : 150) : g.rng.range(1, g.tier ? 8 : 6);
      for (int i = 0; i < n; i++) {
        int k = (int)g.rng.below(nkeys);
        int r = (int)g.rng.below(100);
        Op o;
        if (reader) o = Op{OP_TRY_GET, k, 0, 0};
        else if (seq && r < 6) o = Op{OP_TRAVERSE, g.rng.chance(60) ? (int64_t)g.rng.below(nkeys) : -1, (int64_t)g.rng.below(2), g.rng.chance(25) ? (int64_t)g.rng.range(1, 3) : 0};
        else if (r < 22) o = Op{OP_EMPLACE, k, nextv++, 0};
        else if (r < 30) o = Op{OP_GET_OR_EMPLACE, k, nextv++, 0};
        else if (r < 38) o = Op{OP_GET_OR_EMPLACE_LAZY, k, nextv++, 0};
        else if (r < 55) o = Op{OP_ERASE, k, 0, 0};
        else if (r < 65) o = Op{OP_EXTRACT, k, 0, 0};
        else if (r < 85) o = Op{OP_TRY_GET, k, 0, 0};
        else if (r < 91) o = Op{OP_ERASE_FOUND, k, 0, 0};
        else o = Op{OP_FIND_IT, k, 0, 0};
        p.threads[t].ops.push_back(o);
      }
    }
    g.opt.step_cap = seq ? 600000 : 250000;
  }
  int key(int k) const { return k * stride; }
  void setup(const Program& p) override {
    nkeys = (int)p.params[0];
    stride = p.params[2] == 0 ? 1 : p.params[2] == 1 ? 256 : 128;
    traversal_id = 0;
    m = cfgs[p.config].make((size_t)p.params[1]);
    for (int k = 0; k < p.params[3]; k++) run(Op{OP_EMPLACE, k, 10 + k, 0});
  }
  void run(const Op& op) {
    int k = (int)op.a, v = (int)op.b;
    switch (op.kind) {
      case OP_EMPLACE: {
        op_begin(op.kind, k, v);
        bool ok = m->emplace(key(k), v);
        op_end(ok);
        break;
      }
      case OP_GET_OR_EMPLACE:
      case OP_GET_OR_EMPLACE_LAZY: {
        op_begin(op.kind, k, v);
        auto r = m->get_or_emplace(key(k), v, op.kind == OP_GET_OR_EMPLACE_LAZY);
        op_end(r.first, r.second);
        break;
      }
      case OP_ERASE: {
        op_begin(op.kind, k);
        bool ok = m->erase(key(k));
        op_end(ok);
        break;
      }
      case OP_EXTRACT: {
        op_begin(op.kind, k);
        auto r = m->extract(key(k));
        op_end(r.first, r.second);
        break;
      }
      case OP_TRY_GET: {
        op_begin(op.kind, k, 0, 0, OPF_LOCKFREE);
        auto r = m->try_get(key(k));
        op_end(r.first, r.second);
        break;
      }
      case OP_FIND_IT: {
        op_begin(op.kind, k);
        auto r = m->find_it(key(k));
        op_end(r.first, r.second);
        break;
      }
      case OP_ERASE_FOUND: {
        op_begin(op.kind, k);
        auto r = m->erase_found(key(k));
        op_end(r.first, r.second);
        break;
      }
      case OP_TRAVERSE: {
        int id = ++traversal_id + 100 * self();
        int pos = 0;
        int erase_at = (int)op.a;
        note(OP_T_BEGIN, erase_at, id);
        IHM::TCb cb;
        cb.pre_step = [&]() { op_begin(OP_ITER_NEXT, 0, id); };
        cb.post_step = [&]() { op_end(1); };
        cb.on_yield = [&](int kk, int val) {
          note(OP_YIELD, kk / stride, val, id);
          bool er = pos == erase_at;
          pos++;
          if (er) op_begin(OP_ERASE_POS, kk / stride, val, id);
          return er;
        };
        cb.post_erase = [&](int nk) { op_end(1, nk < 0 ? -1 : nk / stride); };
        m->traverse(cb, (op.b & 1) != 0, (int)op.c);
        note(OP_T_END, pos, id, op.c > 0 ? 1 : 0);
        break;
      }
    }
  }
  void exec(int, const Op& op) override { run(op); }
  void teardown(int) override {
    IHM::TCb cb;
    cb.pre_step = []() {};
    cb.post_step = []() {};
    cb.post_erase = [](int) {};
    cb.on_yield = [&](int kk, int val) {
      note(OP_FINAL, kk / stride, val);
      return false;
    };
    m->traverse(cb, false, 0);
    for (int k = 0; k < nkeys; k++) run(Op{OP_FIND_IT, k, 0, 0});
    // no lost locks: every key of the universe can still be inserted and erased (a leaked bucket lock would hang)
    for (int k = 0; k < nkeys; k++) {
      run(Op{OP_GET_OR_EMPLACE, k, 900 + k, 0});
      run(Op{OP_ERASE, k, 0, 0});
    }
    delete m;
    m = nullptr;
  }
  void check(CheckCtx& c) override;
};

void VHarness::check(CheckCtx& c) {
  const History& h = c.hist;
  std::vector<int> ops;
  uint64_t sh = 1469598103934665603ULL;
  std::map<int, int> final_iter, finds;
  bool in_final = false;
  for (int i = 0; i < h.n; i++) {
    const OpRec& o = h.ops[i];
    sh = (sh ^ (uint64_t)(o.kind * 131 + (o.status + 2) * 7 + o.r0 + o.a * 17)) * 1099511628211ULL;
    if (o.status < 0) {
      if (o.kind == OP_FINAL) {
        in_final = true;
        if (final_iter.count((int)o.a)) return c.fail("iterator-duplicate", "quiescent iteration yielded key %ld twice", (long)o.a);
        final_iter[(int)o.a] = (int)o.b;
      }
      continue;
    }
    if (o.kind == OP_ITER_NEXT) continue;
    if (in_final && o.kind == OP_FIND_IT && o.status == 1 && finds.size() < 64 && !finds.count((int)o.a) && o.r0 < 900) finds[(int)o.a] = (int)o.r0;
    ops.push_back(i);
  }
  c.state_hash = sh;
  VModel mm;
  if (h.weak) {
    // weak runs (C03): per key, see hm_common.hpp
    std::map<int64_t, std::vector<int>> by_key;
    for (int i : ops) by_key[h.ops[i].a].push_back(i);
    for (auto& kv : by_key)
      if (kv.second.size() <= 70 && !check_linearizable(c, *this, mm, VModel::State(), kv.second, "not-linearizable")) return;
  } else if (ops.size() <= 70) {
    if (!check_linearizable(c, *this, mm, VModel::State(), ops, "not-linearizable")) return;
  } else if ((int)c.prog.threads.size() == 1) {
    VModel::State st;
    for (int i : ops)
      if (!mm.step(st, h.ops[i])) {
        std::vector<int> one{i};
        return c.fail("sequential-mismatch", "sequential run deviates from the reference map at %s", describe_ops(h, *this, one).c_str());
      }
  }
  if (finds != final_iter) {
    std::string a, b;
    char buf[32];
    for (auto& e : finds) { snprintf(buf, sizeof buf, "%d:%d ", e.first, e.second); a += buf; }
    for (auto& e : final_iter) { snprintf(buf, sizeof buf, "%d:%d ", e.first, e.second); b += buf; }
    return c.fail("iteration-mismatch", "quiescent iteration yields {%s} but lookups find {%s}", b.c_str(), a.c_str());
  }
  // ---- C11: traversals (iterator holds its bucket exclusively)
  bool single_bucket = c.prog.params[2] == 1 || strstr(cfgs[c.prog.config].name, "consthash") != nullptr;
  for (int ti = 0; ti < h.n; ti++) {
    if (h.ops[ti].status >= 0 || h.ops[ti].kind != OP_T_BEGIN) continue;
    int id = (int)h.ops[ti].b;
    int te = -1;
    for (int i = ti + 1; i < h.n; i++)
      if (h.ops[i].status < 0 && h.ops[i].kind == OP_T_END && h.ops[i].b == id) te = i;
    if (te < 0) continue;
    OpRec T = h.ops[ti];
    T.status = 1;
    T.resp = h.ops[te].resp;
    T.resp_vc = h.ops[te].resp_vc;
    std::vector<int> yields;
    for (int i = 0; i < h.n; i++)
      if (h.ops[i].status < 0 && h.ops[i].kind == OP_YIELD && h.ops[i].c == id) yields.push_back(i);
    for (size_t a = 0; a < yields.size(); a++)
      for (size_t b = a + 1; b < yields.size(); b++)
        if (h.ops[yields[a]].a == h.ops[yields[b]].a)
          return c.fail("iterator-duplicate", "traversal yielded key %ld twice", (long)h.ops[yields[a]].a);
    // completeness: elements inserted before the traversal and not possibly erased before its end must be yielded
    // (not for a traversal that was abandoned on purpose)
    for (int i = 0; i < h.n && h.ops[te].c == 0; i++) {
      const OpRec& I = h.ops[i];
      bool ins = I.status == 1 && (I.kind == OP_EMPLACE || I.kind == OP_GET_OR_EMPLACE || I.kind == OP_GET_OR_EMPLACE_LAZY);
      if (!ins || !h.precedes(I, T)) continue;
      bool maybe_gone = false;
      for (int e = 0; e < h.n && !maybe_gone; e++) {
        const OpRec& E = h.ops[e];
        if (E.a != I.a) continue;
        bool is_erase = ((E.kind == OP_ERASE || E.kind == OP_EXTRACT || E.kind == OP_ERASE_FOUND) && E.status == 1) || E.kind == OP_ERASE_POS;
        if (is_erase && !h.precedes(T, E)) maybe_gone = true;
      }
      if (maybe_gone) continue;
      bool yielded = false;
      for (int yi : yields)
        if (h.ops[yi].a == I.a && h.ops[yi].b == I.b) yielded = true;
      if (!yielded)
        return c.fail("iterator-incomplete", "element (%ld,%ld) was in the map during the whole traversal but was not yielded", (long)I.a, (long)I.b);
    }
    // exclusivity (single bucket layouts, sequentially consistent runs): between the first and the last
    // yield the iterator holds the only populated bucket, so no update of another thread may begin and
    // complete inside that window
    if (single_bucket && !h.weak && yields.size() >= 2) {
      uint64_t lo = h.ops[yields.front()].inv, hi = h.ops[yields.back()].inv;
      for (int i = 0; i < h.n; i++) {
        const OpRec& o = h.ops[i];
        if (o.status < 0 || o.tid == T.tid) continue;
        bool update = o.kind == OP_EMPLACE || o.kind == OP_GET_OR_EMPLACE || o.kind == OP_GET_OR_EMPLACE_LAZY || o.kind == OP_ERASE ||
                      o.kind == OP_EXTRACT || o.kind == OP_FIND_IT || o.kind == OP_ERASE_FOUND;
        if (update && o.inv > lo && o.resp < hi && !o.pending)
          return c.fail("iterator-not-exclusive", "%s(%ld) of T%d began and completed [%lu..%lu] while the iterator of T%d held the bucket [%lu..%lu]",
                        op_name(o.kind), (long)o.a, o.tid, (unsigned long)o.inv, (unsigned long)o.resp, T.tid, (unsigned long)lo, (unsigned long)hi);
      }
    }
  }
}
VHarness h;
struct Reg { Reg() { register_harness(&h); hx::register_reclaimer_probes(); xsim::fn_probe("vyukov_hash_map: do_grow executed", "7do_grow"); xsim::fn_probe("vyukov_hash_map: extension item allocated", "23allocate_extension_item"); xsim::fn_probe("vyukov_hash_map: extension item freed", "19free_extension_item"); xsim::fn_pair_probe("vyukov_hash_map: grow overlaps try_get_value of another thread", "7do_grow", "13try_get_value"); xsim::fn_pair_probe("vyukov_hash_map: grow overlaps lock_bucket of another thread", "7do_grow", "11lock_bucket"); xsim::fn_pair_probe("vyukov_hash_map: two grows overlap", "4growE", "4growE"); xsim::fn_pair_probe("vyukov_hash_map: do_extract overlaps try_get_value", "10do_extract", "13try_get_value"); xsim::fn_pair_probe("vyukov_hash_map: iterator move_to_next_bucket overlaps lock_bucket (writer waits for the iterator)", "19move_to_next_bucket", "11lock_bucket"); xsim::fn_pair_probe("vyukov_hash_map: iterator move_to_next_bucket overlaps grow", "19move_to_next_bucket", "7do_grow"); xsim::fn_pair_probe("vyukov_hash_map: iterator move_to_next_bucket overlaps try_get_value", "19move_to_next_bucket", "13try_get_value"); } } reg;
} // namespace
XSIM_MAIN()
