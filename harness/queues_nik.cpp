#include "queues_common.hpp"
#include <xenium/nikolaev_queue.hpp>
using namespace qh;
namespace hx_queues_nik {
template <class R, unsigned E, unsigned PR>
using NQ = xenium::nikolaev_queue<int, xenium::policy::reclaimer<R>, xenium::policy::entries_per_node<E>, xenium::policy::pop_retries<PR>>;
template <class R, unsigned E, unsigned PR>
using NQS = xenium::nikolaev_queue<std::string, xenium::policy::reclaimer<R>, xenium::policy::entries_per_node<E>, xenium::policy::pop_retries<PR>>;
const Config cfgs[] = {
  {"nik<string>/e2r0/ebr0", make_str<NQS<rc::EBR<0>, 2, 0>>},
  {"nik<string>/e4r2/hp_s3_0_0", make_str<NQS<rc::HP_S<3, 0, 0>, 4, 2>>},
  {"nik/e2r0/hp_s3_0_0", make_int<NQ<rc::HP_S<3, 0, 0>, 2, 0>>},
  {"nik/e2r2/ebr0", make_int<NQ<rc::EBR<0>, 2, 2>>},
  {"nik/e4r0/nebr1", make_int<NQ<rc::NEBR<1>, 4, 0>>},
  {"nik/e2r0/stamp", make_int<NQ<rc::STAMP, 2, 0>>},
  {"nik/e4r2/lfrc", make_int<NQ<rc::LFRC, 4, 2>>},
  {"nik/e2r0/he_d1_1_0", make_int<NQ<rc::HE_D<1, 1, 0>, 2, 0>>},
  {"nik/e1r0/qsbr", make_int<NQ<rc::QSBR, 1, 0>>},
  {"nik/e1r2/debra0", make_int<NQ<rc::DEBRA<0>, 1, 2>>},
};
QueueHarness h("queues_nik", cfgs, sizeof(cfgs) / sizeof(cfgs[0]));
struct Reg { Reg() { xsim::register_harness(&h); hx::register_reclaimer_probes(); xsim::fn_probe("nikolaev_queue: a pusher lost the race to append its node (steal_init_value)", "16steal_init_value"); xsim::fn_probe("nikolaev_scq: catchup executed", "7catchup"); xsim::fn_pair_probe("nikolaev_queue: push overlaps pop", "nikolaev_queue&4pushE", "nikolaev_queue&3popE"); } } reg;
} // namespace
XSIM_MAIN()
