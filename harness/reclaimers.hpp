// reclaimer configurations shared by the harnesses (small thresholds so that reclamation happens
// inside short histories)
#pragma once
#include <xenium/reclamation/generic_epoch_based.hpp>
#include <xenium/reclamation/hazard_eras.hpp>
#include <xenium/reclamation/hazard_pointer.hpp>
#include <xenium/reclamation/lock_free_ref_count.hpp>
#include <xenium/reclamation/quiescent_state_based.hpp>
#include <xenium/reclamation/stamp_it.hpp>

namespace rc {
namespace xr = xenium::reclamation;
namespace xp = xenium::policy;

using LFRC = xr::lock_free_ref_count<>;
using LFRC_TL2 = xr::lock_free_ref_count<>::with<xp::thread_local_free_list_size<2>>;
using LFRC_PAD = xr::lock_free_ref_count<>::with<xp::insert_padding<true>>;

template <size_t K, size_t A, size_t B>
using HP_S = xr::hazard_pointer<>::with<xp::allocation_strategy<xr::hp_allocation::static_strategy<K, A, B>>>;
template <size_t K, size_t A, size_t B>
using HP_D = xr::hazard_pointer<>::with<xp::allocation_strategy<xr::hp_allocation::dynamic_strategy<K, A, B>>>;
template <size_t K, size_t A, size_t B>
using HE_S = xr::hazard_eras<>::with<xp::allocation_strategy<xr::he_allocation::static_strategy<K, A, B>>>;
template <size_t K, size_t A, size_t B>
using HE_D = xr::hazard_eras<>::with<xp::allocation_strategy<xr::he_allocation::dynamic_strategy<K, A, B>>>;

template <size_t F>
using EBR = typename xr::epoch_based<>::template with<xp::scan_frequency<F>>;
template <size_t F>
using NEBR = typename xr::new_epoch_based<>::template with<xp::scan_frequency<F>>;
template <size_t F>
using DEBRA = typename xr::debra<>::template with<xp::scan_frequency<F>>;
template <size_t F, class Scan, class Abandon, xr::region_extension RE>
using GEB = xr::generic_epoch_based<>::with<xp::scan_frequency<F>, xp::scan<Scan>, xp::abandon<Abandon>, xp::region_extension<RE>>;

using QSBR = xr::quiescent_state_based;
using STAMP = xr::stamp_it;
} // namespace rc

// the policies are really in effect (a later policy in a `with` list does not override an earlier one)
namespace rc {
template <class T> struct traits_of;
template <class Tr> struct traits_of<xr::generic_epoch_based<Tr>> { using type = Tr; };
static_assert(traits_of<EBR<0>>::type::scan_frequency == 0, "scan_frequency policy not applied");
static_assert(traits_of<NEBR<1>>::type::scan_frequency == 1, "scan_frequency policy not applied");
static_assert(traits_of<DEBRA<2>>::type::scan_frequency == 2, "scan_frequency policy not applied");
static_assert(traits_of<GEB<2, xr::scan::one_thread, xr::abandon::always, xr::region_extension::lazy>>::type::scan_frequency == 2, "");
static_assert(traits_of<GEB<2, xr::scan::one_thread, xr::abandon::always, xr::region_extension::lazy>>::type::region_extension_type == xr::region_extension::lazy, "");
} // namespace rc
