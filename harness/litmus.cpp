// litmus self-test of the memory model (DESIGN.md §3.4): allowed weak outcomes must be reached,
// forbidden ones never. Forbidden outcome => class "litmus-forbidden" (machinery failure).
#include "common.hpp"

using namespace xsim;
namespace hx_litmus {

enum { RLX = 0, RA = 1, SC = 2 };
static std::memory_order st(int m) { return m == RLX ? std::memory_order_relaxed : m == RA ? std::memory_order_release : std::memory_order_seq_cst; }
static std::memory_order ld(int m) { return m == RLX ? std::memory_order_relaxed : m == RA ? std::memory_order_acquire : std::memory_order_seq_cst; }

struct Shared {
  std::atomic<int> x{0}, y{0};
  int data = 0;
  std::atomic<uint64_t> wide{0};
};

struct Test {
  const char* name;
  int nthreads;
  bool expect_violation; // the data race detector must fire for some seed
};
static const Test tests[] = {
  {"mp_rlx", 2, false},        // 0  weak outcome allowed
  {"mp_relacq", 2, false},     // 1  forbidden
  {"mp_fences", 2, false},     // 2  forbidden
  {"sb_relacq", 2, false},     // 3  weak outcome allowed
  {"sb_sc", 2, false},         // 4  forbidden
  {"sb_scfence", 2, false},    // 5  forbidden
  {"corr", 3, false},          // 6  forbidden
  {"iriw_acq", 4, false},      // 7  weak outcome allowed
  {"iriw_sc", 4, false},       // 8  forbidden
  {"relseq_rmw", 3, false},    // 9  no race
  {"relseq_broken", 3, true},  // 10 race expected (plain store by another thread breaks the release sequence)
  {"lb", 2, false},            // 11 never produced by this model
  {"rmw_atomic", 3, false},    // 12 sum exact
  {"spin_visible", 2, false},  // 13 terminates
  {"mp_plain_race", 2, true},  // 14 race expected
  {"mp_plain_ok", 2, false},   // 15 no race (release/acquire)
  {"fence_fence_plain", 2, false}, // 16 no race (rel fence / acq fence)
  {"sc_fence_no_hb", 2, true}, // 17 seq_cst fences alone do not order plain accesses: race expected
  {"cowr", 2, false},          // 18 forbidden: read own write coherence
  {"scfence_store_load", 2, false}, // 19 store; sc-fence || sc-fence; load pattern (HP style) forbidden both miss
  {"corr_hb_reread", 3, false},     // 20 forbidden: read-read coherence through happens-before must survive a second read of the
                                    //    same store by the signalling thread (the obligation is tied to its EARLIEST read)
};
constexpr int NT = sizeof(tests) / sizeof(tests[0]);

class Litmus : public Harness {
  Shared* s = nullptr;
  int cfg = 0;

public:
  const char* name() const override { return "litmus"; }
  int num_configs() const override { return NT; }
  const char* config_name(int i) const override { return tests[i].name; }
  const char* op_name(int) const override { return "t"; }
  void generate(GenCtx& g, Program& p) override {
    int only = getenv("LITMUS_TEST") ? atoi(getenv("LITMUS_TEST")) : -1;
    p.config = only >= 0 ? only : (int)g.rng.below(NT);
    if (only < 0)
      while (tests[p.config].expect_violation) p.config = (int)g.rng.below(NT);
    p.threads.resize(tests[p.config].nthreads);
    for (auto& t : p.threads) t.ops.push_back(Op{0, 0, 0, 0});
    if (g.opt.W == 0) g.opt.W = 16;
    g.opt.plain_yield = 0;
    for (int i = 0; i < NT; i++) probe_name(i, tests[i].name);
  }
  void setup(const Program& p) override {
    cfg = p.config;
    s = new Shared();
  }
  void teardown(int) override { delete s; }
  void exec(int ti, const Op&) override {
    op_begin(0, ti);
    int r1 = -1, r2 = -1;
    auto& x = s->x;
    auto& y = s->y;
    switch (cfg) {
      case 0: case 1: {
        int m = cfg == 0 ? RLX : RA;
        if (ti == 0) { x.store(1, std::memory_order_relaxed); y.store(1, st(m)); }
        else { r1 = y.load(ld(m)); r2 = x.load(std::memory_order_relaxed); }
        break;
      }
      case 2:
        if (ti == 0) { x.store(1, std::memory_order_relaxed); std::atomic_thread_fence(std::memory_order_release); y.store(1, std::memory_order_relaxed); }
        else { r1 = y.load(std::memory_order_relaxed); std::atomic_thread_fence(std::memory_order_acquire); r2 = x.load(std::memory_order_relaxed); }
        break;
      case 3: case 4: {
        int m = cfg == 3 ? RA : SC;
        if (ti == 0) { x.store(1, st(m)); r1 = y.load(ld(m)); }
        else { y.store(1, st(m)); r1 = x.load(ld(m)); }
        break;
      }
      case 5:
        if (ti == 0) { x.store(1, std::memory_order_relaxed); std::atomic_thread_fence(std::memory_order_seq_cst); r1 = y.load(std::memory_order_relaxed); }
        else { y.store(1, std::memory_order_relaxed); std::atomic_thread_fence(std::memory_order_seq_cst); r1 = x.load(std::memory_order_relaxed); }
        break;
      case 6:
        if (ti == 0) { x.store(1, std::memory_order_relaxed); x.store(2, std::memory_order_relaxed); }
        else { r1 = x.load(std::memory_order_relaxed); r2 = x.load(std::memory_order_relaxed); }
        break;
      case 7: case 8: {
        int m = cfg == 7 ? RA : SC;
        if (ti == 0) x.store(1, st(m));
        else if (ti == 1) y.store(1, st(m));
        else if (ti == 2) { r1 = x.load(ld(m)); r2 = y.load(ld(m)); }
        else { r1 = y.load(ld(m)); r2 = x.load(ld(m)); }
        break;
      }
      case 9: case 10:
        if (ti == 0) { s->data = 42; x.store(1, std::memory_order_release); }
        else if (ti == 1) {
          if (cfg == 9) { int e = 1; x.compare_exchange_strong(e, 2, std::memory_order_relaxed); }
          else { if (x.load(std::memory_order_relaxed) == 1) x.store(2, std::memory_order_relaxed); }
        } else { r1 = x.load(std::memory_order_acquire); if (r1 == 2) r2 = s->data; }
        break;
      case 11:
        if (ti == 0) { r1 = x.load(std::memory_order_relaxed); y.store(1, std::memory_order_relaxed); }
        else { r1 = y.load(std::memory_order_relaxed); x.store(1, std::memory_order_relaxed); }
        break;
      case 12:
        for (int i = 0; i < 3; i++) x.fetch_add(1, std::memory_order_relaxed);
        r1 = 0;
        break;
      case 13:
        if (ti == 0) x.store(1, std::memory_order_relaxed);
        else { while (x.load(std::memory_order_relaxed) == 0) {} r1 = 1; }
        break;
      case 14: case 15: {
        auto so = cfg == 14 ? std::memory_order_relaxed : std::memory_order_release;
        auto lo = cfg == 14 ? std::memory_order_relaxed : std::memory_order_acquire;
        if (ti == 0) { s->data = 7; y.store(1, so); }
        else { r1 = y.load(lo); if (r1 == 1) r2 = s->data; }
        break;
      }
      case 16:
        if (ti == 0) { s->data = 7; std::atomic_thread_fence(std::memory_order_release); y.store(1, std::memory_order_relaxed); }
        else { r1 = y.load(std::memory_order_relaxed); std::atomic_thread_fence(std::memory_order_acquire); if (r1 == 1) r2 = s->data; }
        break;
      case 17:
        if (ti == 0) { s->data = 7; std::atomic_thread_fence(std::memory_order_seq_cst); y.store(1, std::memory_order_relaxed); }
        else { r1 = y.load(std::memory_order_relaxed); if (r1 == 1) { r2 = s->data; } }
        break;
      case 18:
        if (ti == 0) { x.store(1, std::memory_order_relaxed); r1 = x.load(std::memory_order_relaxed); }
        else { x.store(2, std::memory_order_relaxed); r1 = x.load(std::memory_order_relaxed); }
        break;
      case 19:
        // hazard pointer handshake: each side publishes, fences, then looks at the other side
        if (ti == 0) { x.store(1, std::memory_order_release); std::atomic_thread_fence(std::memory_order_seq_cst); r1 = y.load(std::memory_order_acquire); }
        else { y.store(1, std::memory_order_relaxed); std::atomic_thread_fence(std::memory_order_seq_cst); r1 = x.load(std::memory_order_relaxed); }
        break;
      case 20:
        if (ti == 0) x.store(1, std::memory_order_relaxed);
        else if (ti == 1) { r1 = x.load(std::memory_order_relaxed); y.store(1, std::memory_order_release); r2 = x.load(std::memory_order_relaxed); }
        else { r1 = y.load(std::memory_order_acquire); r2 = x.load(std::memory_order_relaxed); }
        break;
    }
    op_end(1, r1, r2);
  }
  void check(CheckCtx& c) override {
    int cfgi = c.prog.config;
    int r1[4] = {-1, -1, -1, -1}, r2[4] = {-1, -1, -1, -1};
    for (int i = 0; i < c.hist.n; i++) {
      const OpRec& o = c.hist.ops[i];
      if (o.a >= 0 && o.a < 4) { r1[o.a] = (int)o.r0; r2[o.a] = (int)o.r1; }
    }
    bool weak = false, forbidden = false;
    switch (cfgi) {
      case 0: weak = r1[1] == 1 && r2[1] == 0; break;
      case 1: case 2: forbidden = r1[1] == 1 && r2[1] == 0; break;
      case 3: weak = r1[0] == 0 && r1[1] == 0; break;
      case 4: case 5: case 19: forbidden = r1[0] == 0 && r1[1] == 0; break;
      case 6: forbidden = (r1[1] == 2 && r2[1] == 1) || (r1[2] == 2 && r2[2] == 1) || (r1[1] > 0 && r2[1] == 0) || (r1[2] > 0 && r2[2] == 0); break;
      case 7: weak = r1[2] == 1 && r2[2] == 0 && r1[3] == 1 && r2[3] == 0; break;
      case 8: forbidden = r1[2] == 1 && r2[2] == 0 && r1[3] == 1 && r2[3] == 0; break;
      case 9: forbidden = r1[2] == 2 && r2[2] != 42; break;
      case 11: forbidden = r1[0] == 1 && r1[1] == 1; break;
      case 18: forbidden = r1[0] == 0 || r1[1] == 0; break;
      case 20: forbidden = r1[1] == 1 && r1[2] == 1 && r2[2] == 0; break;
      default: break;
    }
    if (forbidden) c.fail("litmus-forbidden", "test %s produced a forbidden outcome r1=[%d,%d,%d,%d] r2=[%d,%d,%d,%d]", tests[cfgi].name, r1[0], r1[1], r1[2], r1[3], r2[0], r2[1], r2[2], r2[3]);
    if (weak) probe(cfgi);
    c.state_hash = (uint64_t)cfgi * 1000003u + (uint64_t)(r1[0] + 2) * 7 + (uint64_t)(r1[1] + 2) * 31 + (uint64_t)(r2[1] + 2) * 131 + (uint64_t)(r1[2] + 2) * 521 + (uint64_t)(r2[2] + 2) * 1031 + (uint64_t)(r1[3] + 2) * 4099 + (uint64_t)(r2[3] + 2) * 8209;
  }
};
hx::Registrar<Litmus> reg;
} // namespace
XSIM_MAIN()
