// recl — reclamation schemes driven directly through concurrent_ptr / guard_ptr (C01, C02, C15, C17, C18)
#pragma once
#include "common.hpp"
#include "lincheck.hpp"
#include "reclaimers.hpp"
#include "markalg.hpp"
#include <memory>
#include <new>
#include <stdexcept>
#include <string>

namespace rh {
using namespace xsim;

enum {
  OP_PUBLISH = 1,   // a=cell            new node into the cell (CAS from the current value; old one retired)
  OP_READ = 2,      // a=cell b=slot c=order(0 acquire,1 seq_cst)
  OP_READ_IF = 3,   // a=cell b=slot c=expected selector (0 current value, 1 value held by slot (b+1), 2 null)
  OP_COPY = 4,      // a=src slot b=dst slot   copy assignment
  OP_MOVE = 5,      // a=src slot b=dst slot   move assignment
  OP_COPYCTOR = 6,  // a=src b=dst             destroy dst, copy construct from src
  OP_MOVECTOR = 7,  // a=src b=dst
  OP_SWAP = 8,      // a,b
  OP_RESET = 9,     // a=slot
  OP_UNLINK = 10,   // a=cell              acquire, CAS to null, reclaim on success
  OP_REGION_ENTER = 11,
  OP_REGION_LEAVE = 12,
  OP_PTRCTOR = 13,  // a=src b=dst         destroy dst, construct from marked_ptr of src
  OP_SELFASSIGN = 14, // a=slot c=0 copy / 1 move
  OP_RESET2 = 15,   // a=slot              reset twice
  OP_REMARK = 16,   // a=cell              flip the mark bit of the cell, same object (CAS from the current value)
  OP_MARKALG = 17,  // a=width selector b=seed   marked_ptr / concurrent_ptr round trips for one mark width (data path, markalg.hpp)
  OP_NOTE_LEFT = 40, // teardown note: a=#retired not destroyed
};

constexpr int NCELLS = 4;
constexpr int NSLOTS = 4;
constexpr int FLUSH_ID_BASE = 6000;

struct Traits {
  const char* name;
  bool lfrc;
  int K;        // hazard slots of the static strategy (0: not HP/HE)
  bool dynamic; // dynamic HP/HE strategy
  int flush_cycles;
  bool hp_like;
};

struct IWorld {
  virtual ~IWorld() = default;
  virtual void exec(int ti, const Op& op) = 0;
  virtual void thread_end(int ti) = 0;
  virtual void teardown(int k, int nteardown) = 0;
  virtual void (*dtor_unlink_hook())(int64_t) = 0;
};

inline thread_local int64_t g_cur_deleter = -1; // deleter id in effect while a node is being deleted
inline bool g_teardown = false;
inline bool g_nested = false;                   // this run: some nodes own a child that their destructor retires
// nested unlink (half of the nested-retirement runs): the destructor of every third node also empties a shared cell and
// retires the object it unlinked - a destructor that uses the reclaimer like any other client code (acquire, CAS,
// reclaim), wherever the reclaimer happens to run it
inline void (*g_dtor_unlink)(int64_t id) = nullptr;
inline thread_local bool g_direct_delete = false; // the harness deletes a node that never became reachable
inline bool g_published[8192];

template <class R, bool LFRC>
struct NodeT;

template <class R, bool LFRC>
void retire_child(NodeT<R, LFRC>* c);

template <class R>
struct DelT {
  int64_t did = -1;
  void operator()(NodeT<R, false>* n) const;
};

template <class R>
struct NodeT<R, false> : R::template enable_concurrent_ptr<NodeT<R, false>, 1, DelT<R>> {
  int64_t id;
  uint64_t pat[2];
  NodeT* child = nullptr; // nested retirement: retired by this node's destructor (wherever the reclaimer runs it)
  explicit NodeT(int64_t i) : id(i) {
    pat[0] = (uint64_t)i * 0x9e3779b97f4a7c15ULL;
    pat[1] = ~pat[0];
    if (i < FLUSH_ID_BASE) obj_born(i, this, sizeof(*this));
  }
  ~NodeT() {
    if (id < FLUSH_ID_BASE) {
      if (g_published[id] && !g_teardown && obj_state(id) == 1)
        xsim::fail("destroyed-not-retired", "published object %ld was destroyed although it was never retired", (long)id);
      obj_died(id, g_cur_deleter);
    }
    if (child) retire_child<R, false>(child);
    if (g_dtor_unlink && id < FLUSH_ID_BASE && id % 3 == 1 && !g_teardown && !g_direct_delete) g_dtor_unlink(id);
    pat[0] = pat[1] = 0xdeaddeaddeaddeadULL;
  }
};
template <class R>
void DelT<R>::operator()(NodeT<R, false>* n) const {
  int64_t save = g_cur_deleter;
  g_cur_deleter = did;
  delete n;
  g_cur_deleter = save;
}

template <class R>
struct NodeT<R, true> : R::template enable_concurrent_ptr<NodeT<R, true>, 1> {
  int64_t id;
  uint64_t pat[2];
  NodeT* child = nullptr; // nested retirement: retired by this node's destructor (wherever the reclaimer runs it)
  explicit NodeT(int64_t i) : id(i) {
    mem_alive(pat, sizeof(pat));
    pat[0] = (uint64_t)i * 0x9e3779b97f4a7c15ULL;
    pat[1] = ~pat[0];
    if (i < FLUSH_ID_BASE) obj_born(i, this, sizeof(*this));
  }
  ~NodeT() {
    if (id < FLUSH_ID_BASE) {
      if (g_published[id] && !g_teardown && obj_state(id) == 1)
        xsim::fail("destroyed-not-retired", "published object %ld was destroyed although it was never retired", (long)id);
      obj_died(id, -1);
    }
    if (child) retire_child<R, true>(child);
    if (g_dtor_unlink && id < FLUSH_ID_BASE && id % 3 == 1 && !g_teardown && !g_direct_delete) g_dtor_unlink(id);
    pat[0] = pat[1] = 0xdeaddeaddeaddeadULL;
    mem_dead(pat, sizeof(pat)); // type-stable memory: the payload must not be touched any more
  }
};

// A node's destructor hands its child to the reclaimer (a deleter that retires a further object: a container of
// containers does this). It runs wherever the reclaimer destroys the parent - inside another thread's scan, inside an
// epoch change, inside a thread_local destructor at thread exit - and the child has to be destroyed exactly once, by
// its own deleter, like every other retired object (C02).
template <class R, bool LFRC>
void retire_child(NodeT<R, LFRC>* c) {
  if (g_direct_delete || g_teardown) {
    delete c; // the parent never became reachable (or the world is torn down): nobody else knows the child
    return;
  }
  using CP = typename R::template concurrent_ptr<NodeT<R, LFRC>, 1>;
  typename CP::guard_ptr g{typename CP::marked_ptr(c)};
  int64_t did = c->id * 7 + 1;
  xsim::obj_retired(c->id, LFRC ? -1 : did);
  if constexpr (LFRC)
    g.reclaim();
  else
    g.reclaim(DelT<R>{did});
}

template <class R, bool LFRC>
struct World : IWorld {
  using Node = NodeT<R, LFRC>;
  using CPtr = typename R::template concurrent_ptr<Node, 1>;
  using MPtr = typename CPtr::marked_ptr;
  using Guard = typename CPtr::guard_ptr;
  using Region = typename R::region_guard;

  struct TState {
    alignas(Guard) unsigned char gbuf[NSLOTS][sizeof(Guard)];
    int64_t held[NSLOTS];
    bool mayhold[NSLOTS]; // C18 slot model: may occupy a hazard slot
    int via[NSLOTS];      // how the guard got its object: 0 acquire, 1 copy, 2 copy after retirement
    alignas(Region) unsigned char rbuf[2][sizeof(Region) < 1 ? 1 : sizeof(Region)];
    int regions = 0;
    int next_id;
    int nmark = 0;
    Guard& g(int i) { return *reinterpret_cast<Guard*>(gbuf[i]); }
  };

  const Traits& tr;
  CPtr cells[NCELLS];
  TState* ts[MAXT] = {};
  bool c18;

  static inline World* self = nullptr;
  World(const Traits& t, bool c18mode) : tr(t), c18(c18mode) { self = this; }
  ~World() { self = nullptr; }
  static void dtor_unlink(int64_t id) {
    World* w = self;
    // a static hazard pointer / era pool may be exhausted by the guards of the operation during which the reclaimer
    // runs this destructor; an exception cannot leave a destructor
    if (!w || (w->tr.hp_like && !w->tr.dynamic)) return;
    int a = (int)(id % NCELLS);
    // 0-2 guarded reads first (each a complete enter/leave of the reclaimer, i.e. a reclamation point of its own,
    // nested inside the one that runs this destructor); the number is a recorded decision of the run
    int pre = (int)xsim::choose(3);
    for (int i = 0; i < pre; i++) {
      Guard r;
      r.acquire(w->cells[(a + 1 + i) % NCELLS], std::memory_order_acquire);
    }
    Guard tmp;
    tmp.acquire(w->cells[a], std::memory_order_acquire);
    if (!tmp.get()) return;
    MPtr cur = tmp;
    if (w->cells[a].compare_exchange_strong(cur, MPtr(), std::memory_order_acq_rel, std::memory_order_relaxed)) {
      probe(3);
      w->retire(tmp, tmp.get()->id);
    }
  }

  TState& state(int ti) {
    if (!ts[ti]) {
      TState* s = new TState();
      for (int i = 0; i < NSLOTS; i++) {
        new (s->gbuf[i]) Guard();
        s->held[i] = -1;
        s->mayhold[i] = false;
        s->via[i] = 0;
      }
      s->next_id = (ti + 1) * 200;
      ts[ti] = s;
    }
    return *ts[ti];
  }

  // register value of a cell: raw (address, mark) - never dereferences the node
  static int64_t val_of(const MPtr& p) { return (int64_t)(reinterpret_cast<uintptr_t>(p.get()) * 4 + p.mark()); }

  // ledger bookkeeping around a library call that may change what slot `s` protects
  void before(TState& t, int s) {
    if (t.held[s] >= 0) {
      guard_del(t.held[s], s);
      t.held[s] = -1;
    }
  }
  void after(TState& t, int s) {
    Guard& g = t.g(s);
    if (g.get() != nullptr) {
      Node* n = g.get();
      int64_t id = n->id; // guarded read: checked by the lifetime monitor
      if (n->pat[0] != (uint64_t)id * 0x9e3779b97f4a7c15ULL || n->pat[1] != ~n->pat[0])
        xsim::fail("payload-corrupt", "guarded object %ld has a corrupted payload (memory reused or destroyed)", (long)id);
      if (id < FLUSH_ID_BASE) {
        if (!obj_alive(id))
          xsim::fail("guard-on-dead", "guard slot %d holds object %ld which has already been destroyed", s, (long)id);
        guard_add(id, s, t.via[s]);
        t.held[s] = id;
      }
    }
  }
  // known finding D11: a hazard_pointer guard copied (new slot, no validation) when the object is already retired
  void note_hp_copy(TState& t, int b) {
    if (tr.name[0] == 'h' && tr.name[1] == 'p' && t.held[b] >= 0 && obj_state(t.held[b]) == 2) tag("hp-copy-after-retire");
  }
  // provenance of a copy of guard slot a
  int copy_via(TState& t, int a) {
    if (t.held[a] < 0) return 1;
    if (t.via[a] == 2) return 2;
    return obj_state(t.held[a]) == 2 ? 2 : 1;
  }
  void recheck(TState& t) {
    // every held guard must still protect a live, intact object
    for (int s = 0; s < NSLOTS; s++)
      if (t.held[s] >= 0) {
        Node* n = t.g(s).get();
        if (!n || n->id != t.held[s] || n->pat[1] != ~n->pat[0])
          xsim::fail("payload-corrupt", "object %ld held by guard slot %d changed under the guard", (long)t.held[s], s);
      }
  }
  // C18 (i)/(v): was this exhaustion exception legitimate? `target`: guard slot that requested a hazard
  // slot (-1: a temporary guard of publish/unlink). It is legitimate only if at least K *other* guard
  // variables of this thread may currently occupy a slot.
  void on_exhausted(TState& t, int target, int) {
    if (tr.dynamic) xsim::fail("exhaustion-dynamic", "dynamic allocation strategy threw bad_hazard_*_alloc");
    int others = 0;
    for (int s = 0; s < NSLOTS; s++)
      if (s != target && (t.mayhold[s] || t.held[s] >= 0 || t.g(s).get() != nullptr)) others++;
    if (others < tr.K)
      xsim::fail("spurious-exhaustion", "bad_hazard_*_alloc although only %d other guard variable(s) of the thread can hold a slot (K=%d)",
                 others, tr.K);
    probe(1);
  }

  Node* make_node(TState& t) {
    int64_t id = t.next_id++;
    Node* n = new Node(id);
    if (g_nested && id % 3 == 0) n->child = new Node(t.next_id++);
    return n;
  }

  void retire(Guard& g, int64_t id) {
    int64_t did = id * 7 + 1;
    if (id < FLUSH_ID_BASE) obj_retired(id, LFRC ? -1 : did);
    if constexpr (LFRC)
      g.reclaim();
    else
      g.reclaim(DelT<R>{did});
  }

  void exec(int ti, const Op& op) override {
    TState& t = state(ti);
    int a = (int)op.a, b = (int)op.b;
    const int lf = OPF_LOCKFREE;
    try {
      switch (op.kind) {
        case OP_PUBLISH: {
          op_begin(op.kind, a, 0, 0, lf);
          Node* n = make_node(t);
          int64_t nid = n->id;
          unsigned mark = (unsigned)(t.nmark++ & 1);
          Guard tmp;
          int64_t oldv = 0;
          bool ok = false;
          try {
            tmp.acquire(cells[a], std::memory_order_acquire);
          } catch (const std::runtime_error&) {
            g_direct_delete = true;
            delete n;
            g_direct_delete = false;
            on_exhausted(t, -1, 1);
            op_end(2);
            break;
          }
          MPtr cur = tmp;
          oldv = val_of(cur);
          g_published[nid] = true;
          ok = cells[a].compare_exchange_strong(cur, MPtr(n, mark), std::memory_order_acq_rel, std::memory_order_relaxed);
          if (ok) {
            if (tmp.get()) {
              retire(tmp, tmp.get()->id);
            }
          } else {
            g_published[nid] = false;
            tmp.reset();
            g_direct_delete = true;
            delete n; // never became reachable
            g_direct_delete = false;
          }
          op_end(ok, val_of(MPtr(n, mark)), oldv);
          break;
        }
        case OP_READ: {
          op_begin(op.kind, a, b, op.c, lf);
          before(t, b);
          t.mayhold[b] = true;
          t.via[b] = 0;
          t.g(b).acquire(cells[a], op.c ? std::memory_order_seq_cst : std::memory_order_acquire);
          after(t, b);
          op_end(1, val_of(MPtr(t.g(b))));
          break;
        }
        case OP_READ_IF: {
          MPtr expected;
          if (op.c == 0)
            expected = cells[a].load(std::memory_order_relaxed);
          else if (op.c == 1)
            expected = MPtr(t.g((b + 1) % NSLOTS));
          op_begin(op.kind, a, b, val_of(expected), lf);
          before(t, b);
          t.mayhold[b] = true;
          t.via[b] = 0;
          bool ok = t.g(b).acquire_if_equal(cells[a], expected, std::memory_order_acquire);
          after(t, b);
          if (!ok && (t.g(b).get() != nullptr || t.g(b).mark() != 0))
            xsim::fail("acquire-if-equal-nonempty", "acquire_if_equal returned false but left the guard non-empty");
          if (ok && !(MPtr(t.g(b)) == expected))
            xsim::fail("acquire-if-equal-mismatch", "acquire_if_equal returned true but the guard does not equal the expected value");
          op_end(ok, val_of(MPtr(t.g(b))));
          break;
        }
        case OP_COPY: {
          op_begin(op.kind, a, b, 0, lf);
          int64_t want = val_of(MPtr(t.g(a)));
          int nv = a == b ? t.via[a] : copy_via(t, a);
          before(t, b);
          t.mayhold[b] = true;
          t.via[b] = nv;
          t.g(b) = t.g(a);
          after(t, b);
          note_hp_copy(t, b);
          if (val_of(MPtr(t.g(b))) != want || val_of(MPtr(t.g(a))) != want)
            xsim::fail("algebra", "copy assignment: source/target do not both hold the source value");
          op_end(1, want);
          break;
        }
        case OP_MOVE: {
          op_begin(op.kind, a, b, 0, lf);
          int64_t want = val_of(MPtr(t.g(a)));
          if (a != b) {
            before(t, b);
            before(t, a);
            t.mayhold[b] = t.mayhold[b] || t.mayhold[a] || want != 0;
            t.via[b] = t.via[a];
            t.g(b) = std::move(t.g(a));
            after(t, b);
            if (t.g(a).get() != nullptr || t.g(a).mark() != 0) xsim::fail("algebra", "move assignment did not empty the source");
            t.mayhold[a] = false;
            if (val_of(MPtr(t.g(b))) != want) xsim::fail("algebra", "move assignment: target does not hold the source value");
          }
          op_end(1, want);
          break;
        }
        case OP_COPYCTOR:
        case OP_PTRCTOR: {
          op_begin(op.kind, a, b, 0, lf);
          int64_t want = val_of(MPtr(t.g(a)));
          if (a != b) {
            before(t, b);
            t.g(b).~Guard();
            t.mayhold[b] = false;
            t.via[b] = copy_via(t, a);
            try {
              // hazard_eras: a guard constructed from a raw marked_ptr protects the *current* era only, which
              // does not cover an object that has already been retired; only copies share protection there
              // (C01: "or a copy of such a guard"), so the raw-pointer constructor is not exercised for HE.
              bool is_he = tr.name[0] == 'h' && tr.name[1] == 'e';
              if (op.kind == OP_COPYCTOR || is_he)
                new (t.gbuf[b]) Guard(t.g(a));
              else
                new (t.gbuf[b]) Guard(MPtr(t.g(a)));
            } catch (const std::runtime_error&) {
              new (t.gbuf[b]) Guard();
              on_exhausted(t, b, 0);
              recheck(t);
              op_end(2);
              break;
            }
            // a copy shares whatever slot the source may hold (also when the source pointer is null)
            t.mayhold[b] = want != 0 || t.mayhold[a];
            after(t, b);
            note_hp_copy(t, b);
            if (val_of(MPtr(t.g(b))) != want) xsim::fail("algebra", "copy construction: target does not hold the source value");
          }
          op_end(1, want);
          break;
        }
        case OP_MOVECTOR: {
          op_begin(op.kind, a, b, 0, lf);
          int64_t want = val_of(MPtr(t.g(a)));
          if (a != b) {
            before(t, b);
            before(t, a);
            t.g(b).~Guard();
            new (t.gbuf[b]) Guard(std::move(t.g(a)));
            t.via[b] = t.via[a];
            t.mayhold[b] = t.mayhold[a] || want != 0;
            t.mayhold[a] = false;
            after(t, b);
            if (t.g(a).get() != nullptr || t.g(a).mark() != 0) xsim::fail("algebra", "move construction did not empty the source");
            if (val_of(MPtr(t.g(b))) != want) xsim::fail("algebra", "move construction: target does not hold the source value");
          }
          op_end(1, want);
          break;
        }
        case OP_SWAP: {
          op_begin(op.kind, a, b, 0, lf);
          int64_t va = val_of(MPtr(t.g(a))), vb = val_of(MPtr(t.g(b)));
          if (a != b) {
            before(t, a);
            before(t, b);
            t.g(a).swap(t.g(b));
            std::swap(t.mayhold[a], t.mayhold[b]);
            std::swap(t.via[a], t.via[b]);
            after(t, a);
            after(t, b);
            if (val_of(MPtr(t.g(a))) != vb || val_of(MPtr(t.g(b))) != va) xsim::fail("algebra", "swap did not exchange the guards");
          }
          op_end(1, va, vb);
          break;
        }
        case OP_SELFASSIGN: {
          op_begin(op.kind, a, 0, op.c, lf);
          int64_t want = val_of(MPtr(t.g(a)));
          Guard& ga = t.g(a);
          Guard& alias = ga;
          if (op.c == 0)
            ga = alias;
          else
            ga = std::move(alias);
          if (val_of(MPtr(t.g(a))) != want) xsim::fail("algebra", "self assignment changed the guard");
          recheck(t);
          op_end(1, want);
          break;
        }
        case OP_RESET:
        case OP_RESET2: {
          op_begin(op.kind, a, 0, 0, lf);
          before(t, a);
          t.g(a).reset();
          if (op.kind == OP_RESET2) t.g(a).reset();
          t.mayhold[a] = false;
          if (t.g(a).get() != nullptr || t.g(a).mark() != 0) xsim::fail("algebra", "reset left the guard non-empty");
          op_end(1);
          break;
        }
        case OP_UNLINK: {
          op_begin(op.kind, a, 0, 0, lf);
          Guard tmp;
          try {
            tmp.acquire(cells[a], std::memory_order_acquire);
          } catch (const std::runtime_error&) {
            on_exhausted(t, -1, 1);
            op_end(2);
            break;
          }
          bool ok = false;
          int64_t v = val_of(MPtr(tmp));
          if (tmp.get()) {
            MPtr cur = tmp;
            ok = cells[a].compare_exchange_strong(cur, MPtr(), std::memory_order_acq_rel, std::memory_order_relaxed);
            if (ok) retire(tmp, tmp.get()->id);
          }
          op_end(ok, v);
          break;
        }
        case OP_REMARK: {
          op_begin(op.kind, a, 0, 0, lf);
          Guard tmp;
          try {
            tmp.acquire(cells[a], std::memory_order_acquire);
          } catch (const std::runtime_error&) {
            on_exhausted(t, -1, 1);
            op_end(2);
            break;
          }
          bool ok = false;
          MPtr cur = tmp;
          MPtr nv(cur.get(), cur.mark() ^ 1u);
          // a null pointer with a mark is a legal cell value as well: exercised by every third remark of an empty cell
          if (tmp.get() || (t.nmark++ % 3) == 0) ok = cells[a].compare_exchange_strong(cur, nv, std::memory_order_acq_rel, std::memory_order_relaxed);
          op_end(ok, val_of(nv), val_of(MPtr(tmp)));
          break;
        }
        case OP_MARKALG: {
          op_begin(op.kind, a, b, 0, 0);
          markalg::run<R>(a, (uint64_t)op.b);
          op_end(1);
          break;
        }
        case OP_REGION_ENTER: {
          op_begin(op.kind, 0, 0, 0, lf);
          if (t.regions < 2) {
            new (t.rbuf[t.regions]) Region();
            t.regions++;
          }
          op_end(1);
          break;
        }
        case OP_REGION_LEAVE: {
          op_begin(op.kind, 0, 0, 0, lf);
          if (t.regions > 0) {
            t.regions--;
            reinterpret_cast<Region*>(t.rbuf[t.regions])->~Region();
          }
          op_end(1);
          break;
        }
      }
    } catch (const std::runtime_error&) {
      // exhaustion of a static hazard pointer / era pool inside a guard operation
      int target = (op.kind == OP_READ || op.kind == OP_READ_IF || op.kind == OP_COPY) ? b : -1;
      on_exhausted(t, target, 0);
      if (target >= 0) {
        // (iii) the guard operated on is empty or unchanged; it is re-registered if it still holds something
        after(t, target);
      }
      recheck(t);
      op_end(2);
    }
  }

  void thread_end(int ti) override {
    TState* t = ts[ti];
    if (!t) return;
    for (int s = 0; s < NSLOTS; s++) {
      before(*t, s);
      t->g(s).~Guard();
    }
    while (t->regions > 0) {
      t->regions--;
      reinterpret_cast<Region*>(t->rbuf[t->regions])->~Region();
    }
    delete t;
    ts[ti] = nullptr;
  }

  // scheme specific flush through the public API only (DESIGN.md C02)
  void flush(int k) {
    CPtr* dummy = new CPtr();
    int64_t base = FLUSH_ID_BASE + k * 100;
    {
      // a node stays published in the dummy cell so that every acquire really enters a critical region
      dummy->store(MPtr(new Node(base), 0), std::memory_order_release);
      Guard g;
      for (int i = 0; i < tr.flush_cycles; i++) {
        Region rg;
        g.acquire(*dummy, std::memory_order_acquire);
        g.reset();
      }
      g.acquire(*dummy, std::memory_order_acquire);
      dummy->store(MPtr(), std::memory_order_release);
      if constexpr (LFRC)
        g.reclaim();
      else
        g.reclaim(DelT<R>{-1});
    }
    delete dummy;
  }

  void (*dtor_unlink_hook())(int64_t) override { return &World::dtor_unlink; }
  void teardown(int k, int n) override {
    if (k == 0) {
      // retire what is still reachable (documented protocol), with this thread's guards only
      for (int c = 0; c < NCELLS; c++) {
        Guard g;
        g.acquire(cells[c], std::memory_order_acquire);
        if (g.get()) {
          cells[c].store(MPtr(), std::memory_order_release);
          int64_t id = g.get()->id;
          retire(g, id);
        }
      }
    }
    flush(k);
    (void)n;
  }
};

class ReclHarness : public Harness {
public:
  struct Cfg {
    Traits tr;
    IWorld* (*make)(const Traits&, bool c18);
  };

private:
  const char* nm;
  const Cfg* cfgs;
  int ncfg;
  IWorld* w = nullptr;
  int nteardown = 2;
  int cur_cfg = 0;
  bool mode_c17 = false, mode_c02 = false, nested_unlink_run = false;

public:
  ReclHarness(const char* n, const Cfg* c, int nc) : nm(n), cfgs(c), ncfg(nc) {}
  const char* name() const override { return nm; }
  int num_configs() const override { return ncfg; }
  const char* config_name(int i) const override { return cfgs[i].tr.name; }
  const char* op_name(int k) const override {
    static const char* n[] = {"?", "publish", "read", "read_if_equal", "copy", "move", "copy_ctor", "move_ctor", "swap", "reset",
                              "unlink", "region_enter", "region_leave", "ptr_ctor", "self_assign", "reset2", "remark", "mark_algebra"};
    if (k >= 1 && k <= 17) return n[k];
    if (k == OP_NOTE_LEFT) return "census";
    return "?";
  }

  static bool is(const char* mode, const char* m) { return !strcmp(mode, m); }

  void gen_ops(GenCtx& g, ThreadProg& tp, int nops, int nslots, const Traits& tr, bool c18, bool c15, bool exit_after_unlink,
               bool region_heavy = false) {
    int region_depth = 0;
    for (int i = 0; i < nops; i++) {
      Op o;
      int r = (int)g.rng.below(100);
      int cell = (int)g.rng.below(g.rng.chance(70) ? 2 : NCELLS);
      int s = (int)g.rng.below(nslots), s2 = (int)g.rng.below(nslots);
      if (c18) {
        // slot pressure: mostly guard acquiring / copying operations over all NSLOTS slots
        s = (int)g.rng.below(NSLOTS);
        s2 = (int)g.rng.below(NSLOTS);
        if (r < 12) o = Op{OP_PUBLISH, cell, 0, 0};
        else if (r < 40) o = Op{OP_READ, cell, s, (int64_t)g.rng.below(2)};
        else if (r < 48) o = Op{OP_READ_IF, cell, s, (int64_t)g.rng.below(3)};
        else if (r < 58) o = Op{OP_COPY, s, s2, 0};
        else if (r < 64) o = Op{OP_MOVE, s, s2, 0};
        else if (r < 70) o = Op{OP_COPYCTOR, s, s2, 0};
        else if (r < 74) o = Op{OP_MOVECTOR, s, s2, 0};
        else if (r < 78) o = Op{OP_PTRCTOR, s, s2, 0};
        else if (r < 82) o = Op{OP_SWAP, s, s2, 0};
        else if (r < 94) o = Op{g.rng.chance(20) ? OP_RESET2 : OP_RESET, s, 0, 0};
        else o = Op{OP_UNLINK, cell, 0, 0};
      } else if (c15) {
        if (r < 10) o = Op{OP_PUBLISH, cell, 0, 0};
        else if (r < 16) o = Op{OP_REMARK, cell, 0, 0};
        else if (r < 34) o = Op{OP_READ, cell, s, (int64_t)g.rng.below(2)};
        else if (r < 50) o = Op{OP_READ_IF, cell, s, (int64_t)g.rng.below(3)};
        else if (r < 57) o = Op{OP_COPY, s, s2, 0};
        else if (r < 63) o = Op{OP_MOVE, s, s2, 0};
        else if (r < 68) o = Op{OP_COPYCTOR, s, s2, 0};
        else if (r < 72) o = Op{OP_MOVECTOR, s, s2, 0};
        else if (r < 75) o = Op{OP_PTRCTOR, s, s2, 0};
        else if (r < 80) o = Op{OP_SWAP, s, s2, 0};
        else if (r < 84) o = Op{OP_SELFASSIGN, s, 0, (int64_t)g.rng.below(2)};
        else if (r < 92) o = Op{g.rng.chance(30) ? OP_RESET2 : OP_RESET, s, 0, 0};
        else o = Op{OP_UNLINK, cell, 0, 0};
      } else if (region_heavy) {
        // long-lived region_guards spanning several operations of the other threads (a thread that stays in its
        // critical region while the epoch / stamp moves on), few cells
        cell = (int)g.rng.below(2);
        if (r < 16) o = Op{OP_PUBLISH, cell, 0, 0};
        else if (r < 40) o = Op{OP_READ, cell, s, (int64_t)g.rng.below(2)};
        else if (r < 52) o = Op{OP_RESET, s, 0, 0};
        else if (r < 72) o = Op{OP_UNLINK, cell, 0, 0};
        else if (r < 86 && region_depth < 2) { o = Op{OP_REGION_ENTER, 0, 0, 0}; region_depth++; }
        else if (region_depth > 0) { o = Op{OP_REGION_LEAVE, 0, 0, 0}; region_depth--; }
        else o = Op{OP_READ, cell, s, 1};
      } else {
        if (r < 18) o = Op{OP_PUBLISH, cell, 0, 0};
        else if (r < 21) o = Op{OP_REMARK, cell, 0, 0};
        else if (r < 48) o = Op{OP_READ, cell, s, (int64_t)g.rng.below(2)};
        else if (r < 54) o = Op{OP_READ_IF, cell, s, (int64_t)g.rng.below(3)};
        else if (r < 58) o = Op{OP_COPY, s, s2, 0};
        else if (r < 62) o = Op{OP_MOVE, s, s2, 0};
        else if (r < 64) o = Op{OP_SWAP, s, s2, 0};
        else if (r < 74) o = Op{OP_RESET, s, 0, 0};
        else if (r < 92) o = Op{OP_UNLINK, cell, 0, 0};
        else if (r < 96 && region_depth < 2) { o = Op{OP_REGION_ENTER, 0, 0, 0}; region_depth++; }
        else if (region_depth > 0) { o = Op{OP_REGION_LEAVE, 0, 0, 0}; region_depth--; }
        else o = Op{OP_READ, cell, s, 1};
      }
      tp.ops.push_back(o);
    }
    if (exit_after_unlink) {
      // exit right after retiring: the retire list is handed over by the thread_local destructor
      tp.ops.push_back(Op{OP_PUBLISH, 0, 0, 0});
      tp.ops.push_back(Op{OP_UNLINK, 0, 0, 0});
    }
    (void)tr;
  }

  void generate(GenCtx& g, Program& p) override {
    const char* mode = g.mode;
    bool c18 = is(mode, "C18"), c17 = is(mode, "C17"), c02 = is(mode, "C02"), c15 = is(mode, "C15");
    // pick a configuration that supports the mode
    bool any18 = false, any17 = false;
    for (int i = 0; i < ncfg; i++) {
      any18 = any18 || cfgs[i].tr.hp_like;
      any17 = any17 || !cfgs[i].tr.lfrc;
    }
    if (c18 && !any18) c18 = false; // this binary has no hazard pointer/era configuration: plain C01 programs
    if (c17 && !any17) c17 = false;
    for (;;) {
      p.config = (int)g.rng.below(ncfg);
      const Traits& tr = cfgs[p.config].tr;
      if (c18 && !tr.hp_like) continue;
      if (c17 && tr.lfrc) continue;
      // lock_free_ref_count reclaims synchronously (no epochs, scans, thread lists or orphans): in a binary that also
      // has deferred schemes half of its draws go to those instead
      if (tr.lfrc && any17 && g.rng.chance(50)) continue;
      if (!c18 && tr.hp_like && !tr.dynamic && tr.K < 2) continue; // K=1 static pools are C18 material
      break;
    }
    const Traits& tr = cfgs[p.config].tr;
    int nslots = NSLOTS;
    if (tr.hp_like && !tr.dynamic && !c18) nslots = tr.K - 1; // leave one slot for the temporaries of publish/unlink
    if (nslots < 1) nslots = 1;
    int maxops = g.tier ? 12 : 9;
    bool plain = !c18 && !c17 && !c02 && !c15;
    // nested retirement (two fifths of the C02 / C17 / plain programs): every third node owns a child
    bool nested = (c02 || c17 || plain) && g.rng.chance(40);
    bool nested_unlink = nested && g.rng.chance(50);
    p.params = {c18 ? 1 : 0, c17 ? 1 : 0, c02 ? 1 : 0, nested ? 1 : 0, nested_unlink ? 1 : 0}; // C01 / C03 / C16 programs: exits and adoption matter there too
    if (c17 || (c02 && g.rng.chance(60)) || (plain && g.rng.chance(35))) {
      // generations: G x up to 3 overlapping threads; later threads start while earlier ones exit
      int G = c17 ? (g.rng.chance(50) ? 3 : 6) : 3;
      int per = g.rng.range(1, 3);
      int total = G * per;
      if (total > 16) total = 16;
      p.threads.resize(total);
      for (int i = 0; i < total; i++) {
        gen_ops(g, p.threads[i], g.rng.range(2, c17 ? 6 : 5), nslots, tr, false, false, g.rng.chance(60));
        if (i >= per) {
          p.threads[i].dep_thread = i - per;
          // start once the predecessor has finished its ops (its thread_local destructors may still be
          // running), or only after it has completely exited
          p.threads[i].dep_ops = g.rng.chance(50) ? -1 : (int)p.threads[i - per].ops.size();
          p.threads[i].dep_hb = p.threads[i].dep_ops < 0 && g.rng.chance(50);
        }
      }
      if (c17) g.opt.W = 0;
    } else if (c18 || (c15 && g.rng.chance(50)) || (plain && g.rng.chance(10))) {
      // one guard-juggling thread + an unlinking/retiring partner (+ optionally a second juggler); a tenth of the plain
      // (C01 / C03 / C16) programs have this shape too, with the guard-algebra operation mix: a long sequence of guard
      // copies, moves, constructions and resets on one thread is where per-thread protection state (region counters,
      // slot sharing) goes wrong, and what it breaks is C01 (seed RAm)
      int nt = g.rng.range(2, 3);
      p.threads.resize(nt);
      int len = g.tier ? g.rng.range(20, 120) : g.rng.range(8, 40);
      gen_ops(g, p.threads[0], len, nslots, tr, c18, c15 || plain, false);
      for (int t = 1; t < nt; t++) {
        int n = len / 2 + 2;
        for (int i = 0; i < n; i++) {
          int cell = (int)g.rng.below(2);
          p.threads[t].ops.push_back(g.rng.chance(50) ? Op{OP_PUBLISH, cell, 0, 0} : Op{OP_UNLINK, cell, 0, 0});
        }
      }
      if (c18 && g.rng.chance(30)) {
        // restart on an adopted control block
        ThreadProg tp;
        gen_ops(g, tp, len / 2 + 2, nslots, tr, true, false, false);
        tp.dep_thread = 0;
        tp.dep_ops = -1;
        tp.dep_hb = g.rng.chance(50);
        p.threads.push_back(tp);
      }
    } else {
      int nt = g.rng.range(2, (g.tier || g.rng.chance(20)) ? 4 : 3);
      bool rh = plain && !tr.hp_like && g.rng.chance(30);
      // holder / churn (an eighth of the plain programs of the deferred schemes): one thread acquires a guard (inside a
      // region_guard or not) and keeps it over a few slow operations while two or three others publish and retire in a
      // tight cycle - every cycle is a reclamation point, so epochs / stamps / scans move on several times, each of the
      // churning threads somewhere else in its pass over the thread list, while the holder stays where it is (seed RAa:
      // a partial scan that carries its position over an epoch change)
      bool holder = plain && !tr.lfrc && !rh && g.rng.chance(12);
      // guard-algebra mix in programs checked by the C01 oracles (an eighth of the plain programs): copies, copy / move
      // construction, construction from a marked_ptr, self assignment and re-marking of cells (marked null values) are
      // guard operations of C01's "or a copy of such a guard" as well (seed RAm)
      bool algebra_mix = plain && !holder && g.rng.chance(12);
      if (holder) {
        nt = g.rng.range(3, 4);
        p.threads.resize(nt);
        auto& h = p.threads[0].ops;
        bool region = g.rng.chance(60);
        if (region) h.push_back(Op{OP_REGION_ENTER, 0, 0, 0});
        h.push_back(Op{OP_READ, (int64_t)g.rng.below(2), 0, (int64_t)g.rng.below(2)});
        int mid = g.rng.range(1, 4);
        for (int i = 0; i < mid; i++) {
          int r = (int)g.rng.below(100);
          int s = 1 + (int)g.rng.below(nslots > 1 ? nslots - 1 : 1);
          if (s >= nslots) s = 0;
          if (r < 40) h.push_back(Op{OP_READ, (int64_t)g.rng.below(2), s, (int64_t)g.rng.below(2)});
          else if (r < 60 && s != 0) h.push_back(Op{OP_COPY, 0, s, 0});
          else if (r < 75) h.push_back(Op{OP_READ_IF, (int64_t)g.rng.below(2), s, (int64_t)g.rng.below(3)});
          else h.push_back(Op{OP_RESET, s, 0, 0});
        }
        h.push_back(Op{OP_RESET, 0, 0, 0});
        if (region) h.push_back(Op{OP_REGION_LEAVE, 0, 0, 0});
        for (int t = 1; t < nt; t++) {
          int n = g.rng.range(8, g.tier ? 28 : 20);
          for (int i = 0; i < n; i++) {
            int cell = (int)g.rng.below(2);
            int r = (int)g.rng.below(100);
            if (r < 42) p.threads[t].ops.push_back(Op{OP_PUBLISH, cell, 0, 0});
            else if (r < 88) p.threads[t].ops.push_back(Op{OP_UNLINK, cell, 0, 0});
            else if (r < 94) p.threads[t].ops.push_back(Op{OP_READ, cell, 0, 0});
            else p.threads[t].ops.push_back(Op{OP_RESET, 0, 0, 0});
          }
        }
      } else {
        p.threads.resize(nt);
        for (int t = 0; t < nt; t++)
          gen_ops(g, p.threads[t], rh ? g.rng.range(6, maxops + 6) : g.rng.range(3, maxops), nslots, tr, false, c15 || algebra_mix, c02 && g.rng.chance(50), rh);
        if (algebra_mix && g.rng.chance(50)) {
          // start from a state with marked null cells (what the next pointer of the last node of a Harris-Michael list
          // looks like while that node is being removed): re-marking an empty cell stores marked_ptr(nullptr, 1)
          auto& ops = p.threads[g.rng.below(nt)].ops;
          int c = (int)g.rng.below(2);
          ops.insert(ops.begin(), Op{OP_REMARK, c, 0, 0});
          if (g.rng.chance(50)) ops.insert(ops.begin() + 1, Op{OP_REMARK, 1 - c, 0, 0});
        }
      }
    }
    // C15: in a quarter of the runs one thread also runs the marked_ptr / concurrent_ptr round trips for one mark width
    if (c15 && !p.threads.empty() && g.rng.chance(25)) {
      auto& ops = p.threads[g.rng.below(p.threads.size())].ops;
      ops.insert(ops.begin() + (long)g.rng.below(ops.size() + 1), Op{OP_MARKALG, (int64_t)g.rng.below(7), (int64_t)(g.rng.next() >> 8), 0});
    }
    g.opt.step_cap = g.tier ? 400000 : 150000;
  }

  void setup(const Program& p) override {
    cur_cfg = p.config;
    bool c18 = !p.params.empty() && p.params[0];
    mode_c17 = p.params.size() > 1 && p.params[1];
    mode_c02 = p.params.size() > 2 && p.params[2];
    g_nested = p.params.size() > 3 && p.params[3];
    g_dtor_unlink = nullptr;
    nested_unlink_run = p.params.size() > 4 && p.params[4];
    nteardown = g_nested ? 4 : 2; // a child retired by the last flush needs a flush of its own
    memset(g_published, 0, sizeof g_published);
    g_teardown = false;
    g_cur_deleter = -1;
    w = cfgs[p.config].make(cfgs[p.config].tr, c18);
    if (nested_unlink_run) g_dtor_unlink = w->dtor_unlink_hook();
  }
  void exec(int ti, const Op& op) override { w->exec(ti, op); }
  void thread_end(int ti) override { w->thread_end(ti); }
  int teardown_threads(const Program& p) override { return (p.params.size() > 3 && p.params[3] ? 4 : 2) + 1; }
  void teardown(int k) override {
    const Traits& tr = cfgs[cur_cfg].tr;
    if (k < nteardown) {
      w->teardown(k, nteardown);
      return;
    }
    // final census thread: everything retired by the program must have been destroyed by now
    int64_t first = -1;
    int64_t left = objs_retired_not_dead(&first);
    if (left > 0)
      xsim::fail("leak", "%ld retired object(s) still not destroyed after the flush (e.g. object %ld); all threads have exited", (long)left,
                 (long)first);
    int64_t born = objs_born_not_dead(&first);
    if (born > 0) xsim::fail("leak", "%ld object(s) neither retired nor destroyed at the end (e.g. %ld)", (long)born, (long)first);
    g_teardown = true;
    delete w;
    w = nullptr;
    if (mode_c17 && !tr.lfrc) {
      // bounded bookkeeping: what is still allocated now is per-thread bookkeeping of the reclaimer
      size_t live = live_allocs();
      size_t peak = peak_live_threads();
      size_t per_thread = tr.dynamic ? 1 + NSLOTS + 2 : 1;
      size_t slack = 2 + (size_t)nteardown; // the flush threads' own dummy nodes / orphan carriers may still be pending
      note(OP_NOTE_LEFT, (int64_t)live, (int64_t)peak, (int64_t)total_allocs());
      if (live > per_thread * peak + slack)
        xsim::fail("bookkeeping-growth", "%zu allocations survive the run but only %zu threads were ever live simultaneously (bound %zu per thread)",
                   live, peak, per_thread);
    }
  }

  // C15: every cell is an atomic register of (object, mark) values
  struct RegModel {
    using State = std::array<int64_t, NCELLS>;
    bool step(State& s, const OpRec& o) const {
      switch (o.kind) {
        case OP_PUBLISH:
        case OP_REMARK:
          if (o.status == 2) return true;
          if (o.status == 1) {
            if (s[o.a] != o.r1) return false;
            s[o.a] = o.r0;
            return true;
          }
          return s[o.a] != o.r1; // CAS failed: the cell no longer held the acquired snapshot
        case OP_UNLINK:
          if (o.status == 2) return true;
          if (o.status == 1) {
            if (s[o.a] != o.r0) return false;
            s[o.a] = 0;
            return true;
          }
          // failed: either the snapshot was null (then the cell was null at that instant) or the CAS lost
          return o.r0 == 0 ? s[o.a] == 0 : s[o.a] != o.r0;
        case OP_READ:
          if (o.status == 2) return true;
          return s[o.a] == o.r0;
        case OP_READ_IF:
          if (o.status == 2) return true;
          if (o.status == 1) return s[o.a] == o.c;
          return s[o.a] != o.c;
      }
      return true;
    }
    bool step_pending(State&, const OpRec&) const { return true; }
    void key(const State& s, std::string& k) const { k.append((const char*)s.data(), sizeof(int64_t) * NCELLS); }
  };

  void check(CheckCtx& c) override {
    // Register semantics need single-instant snapshots. PUBLISH/UNLINK are two-step (acquire, CAS) client
    // operations: their failure results are judged at the CAS instant only when the op is treated as the CAS;
    // to stay free of false alarms failed PUBLISH/UNLINK are treated as no-ops.
    std::vector<int> ops;
    uint64_t sh = 1469598103934665603ULL;
    for (int i = 0; i < c.hist.n; i++) {
      const OpRec& o = c.hist.ops[i];
      if (o.status < 0) continue;
      sh = (sh ^ (uint64_t)(o.kind * 131 + o.status * 7 + o.r0)) * 1099511628211ULL;
      if (o.kind == OP_READ || o.kind == OP_READ_IF) ops.push_back(i);
      else if ((o.kind == OP_PUBLISH || o.kind == OP_UNLINK || o.kind == OP_REMARK) && o.status == 1) ops.push_back(i);
    }
    c.state_hash = sh;
    if (c.prog.params.size() > 4 && c.prog.params[4]) return; // nested unlink: destructors change cells outside recorded operations
    RegModel m;
    RegModel::State init{};
    if (!c.hist.weak) {
      if (ops.size() <= 60) check_linearizable(c, *this, m, init, ops, "snapshot-not-linearizable");
    } else {
      // Weak runs: different cells are different atomic objects, and C++ does not promise a single total
      // order over accesses to different objects (store buffering, IRIW). Each cell on its own must still
      // behave as an atomic register under happens-before precedence (coherence).
      for (int cell = 0; cell < NCELLS && !c.failed; cell++) {
        std::vector<int> sub;
        for (int i : ops)
          if (c.hist.ops[i].a == cell) sub.push_back(i);
        if (!sub.empty() && sub.size() <= 60) check_linearizable(c, *this, m, init, sub, "snapshot-not-linearizable");
      }
    }
  }
};

template <class R, bool LFRC>
IWorld* make_world(const Traits& t, bool c18) {
  return new World<R, LFRC>(t, c18);
}

} // namespace rh
