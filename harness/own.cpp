// C07 — queues own their elements: every accepted value is moved out to exactly one consumer or destroyed
// exactly once with the queue; rejected values stay with the caller. Element kinds: raw pointer,
// std::unique_ptr<Tracked>, small trivially copyable, non-trivial movable Tracked by value.
#include "common.hpp"
#include "reclaimers.hpp"
#include <memory>
#include <optional>
#include <xenium/kirsch_bounded_kfifo_queue.hpp>
#include <xenium/kirsch_kfifo_queue.hpp>
#include <xenium/michael_scott_queue.hpp>
#include <xenium/nikolaev_bounded_queue.hpp>
#include <xenium/nikolaev_queue.hpp>
#include <xenium/ramalhete_queue.hpp>
#include <xenium/vyukov_bounded_queue.hpp>

using namespace xsim;
namespace hx_own {
enum { OP_PUSH = 1, OP_POP = 2, OP_NOTE_INSIDE = 40 };
bool g_harness_deleting = false;

// a value token lives in exactly one Tracked instance that has not been moved from
struct Tracked {
  int token;
  bool raw; // owned by the harness (raw pointer element kind): the queue must never destroy it
  explicit Tracked(int t, bool r = false) : token(t), raw(r) { obj_born(t, this, sizeof(*this)); }
  Tracked() : token(-1), raw(false) {}
  Tracked(Tracked&& o) noexcept : token(o.token), raw(o.raw) { o.token = -1; }
  Tracked& operator=(Tracked&& o) noexcept {
    if (this != &o) {
      if (token >= 0) obj_died(token, -1); // the value held so far is overwritten = destroyed
      token = o.token;
      raw = o.raw;
      o.token = -1;
    }
    return *this;
  }
  Tracked(const Tracked&) = delete;
  Tracked& operator=(const Tracked&) = delete;
  ~Tracked() {
    // every element object - also a moved-from shell left behind in a slot - is destroyed exactly once: a second
    // destructor call on the same object (no constructor in between) is "destroyed twice" for any element type
    // whose moved-from state still owns something. (volatile: the marker store below must survive -flifetime-dse)
    if (*(volatile int*)&token == -2) xsim::fail("element-object-destroyed-twice", "the destructor of an element object ran twice on the same storage without a constructor in between");
    if (token >= 0) {
      if (raw && !g_harness_deleting) xsim::fail("queue-destroyed-raw-pointer", "the queue destroyed element %d that it only holds by raw pointer", token);
      obj_died(token, -1);
    }
    *(volatile int*)&token = -2;
  }
};

struct Small {
  uint16_t a;
  uint8_t b;
};
static_assert(sizeof(Small) < sizeof(void*) && std::is_trivially_copyable<Small>::value, "");

struct IOQ {
  virtual ~IOQ() = default;
  // returns 1 accepted, 0 rejected (the token is then destroyed by the caller side wrapper)
  virtual int push(int token) = 0;
  virtual bool pop(int& token) = 0;
};

// --- by-value Tracked ---------------------------------------------------------------------------
template <class Q, bool CanFail, bool Forwarding>
struct ValQ : IOQ {
  Q q;
  template <class... A>
  explicit ValQ(A... a) : q(a...) {}
  int push(int token) override {
    Tracked t(token);
    if constexpr (!CanFail) {
      q.push(std::move(t));
      return 1;
    } else {
      bool ok = q.try_push(std::move(t));
      if (!ok && Forwarding && t.token != token)
        xsim::fail("rejected-value-consumed", "failed try_push moved from the caller's object (token %d)", token);
      if (ok && t.token >= 0 && Forwarding) xsim::fail("accepted-value-not-moved", "successful try_push left the value with the caller");
      return ok;
    } // t dies here: still holding the token iff the push was rejected
  }
  bool pop(int& token) override {
    Tracked r;
    bool ok = q.try_pop(r);
    if (ok) {
      token = r.token;
      if (token < 0) xsim::fail("moved-from-delivered", "try_pop delivered a moved-from / destroyed element");
    }
    return ok; // r (holding the token) is destroyed here: the consumer consumes it
  }
};
// --- std::unique_ptr<Tracked> -------------------------------------------------------------------
template <class Q, bool CanFail>
struct UpQ : IOQ {
  Q q;
  template <class... A>
  explicit UpQ(A... a) : q(a...) {}
  int push(int token) override {
    std::unique_ptr<Tracked> p(new Tracked(token));
    if constexpr (!CanFail) {
      q.push(std::move(p));
      return 1;
    } else {
      return q.try_push(std::move(p));
    }
  }
  bool pop(int& token) override {
    std::unique_ptr<Tracked> r;
    bool ok = q.try_pop(r);
    if (ok) {
      if (!r) xsim::fail("null-delivered", "try_pop succeeded with an empty unique_ptr");
      token = r->token; // touching the element: a double free shows up in the lifetime monitor
      if (token < 0) xsim::fail("moved-from-delivered", "try_pop delivered a destroyed element");
    }
    return ok;
  }
};
// --- raw pointers (no ownership) ----------------------------------------------------------------
Tracked* g_raw[256];
template <class Q, bool CanFail>
struct RawQ : IOQ {
  Q q;
  template <class... A>
  explicit RawQ(A... a) : q(a...) {}
  int push(int token) override {
    Tracked* p = new Tracked(token, true);
    g_raw[token] = p;
    if constexpr (!CanFail) {
      q.push(p);
      return 1;
    } else {
      return q.try_push(p) ? 1 : 2; // 2: rejected, but the harness keeps the object
    }
  }
  bool pop(int& token) override {
    Tracked* r = nullptr;
    bool ok = q.try_pop(r);
    if (ok) token = r->token;
    return ok;
  }
};
// --- small trivially copyable -------------------------------------------------------------------
template <class Q, bool CanFail>
struct SmallQ : IOQ {
  Q q;
  template <class... A>
  explicit SmallQ(A... a) : q(a...) {}
  int push(int token) override {
    Small s{(uint16_t)(token * 257 + 1), (uint8_t)token};
    if constexpr (!CanFail) {
      q.push(s);
      return 3; // accepted, no ownership
    } else {
      return q.try_push(s) ? 3 : 2;
    }
  }
  bool pop(int& token) override {
    Small r{0, 0};
    bool ok = q.try_pop(r);
    if (ok) {
      token = r.b;
      if (r.a != (uint16_t)(token * 257 + 1)) xsim::fail("value-corrupt", "small trivially copyable element came back corrupted");
    }
    return ok;
  }
};

struct Cfg {
  const char* name;
  int family; // 0 unbounded, 1 bounded(size param), 2 kfifo(k), 3 bounded kfifo(k, segs)
  IOQ* (*make)(int, int);
  bool kfifo;
};
namespace xp = xenium::policy;
template <class W> IOQ* mk0(int, int) { return new W(); }
template <class W> IOQ* mk1(int a, int) { return new W((size_t)a); }
template <class W> IOQ* mkk(int a, int) { return new W((uint64_t)a); }
template <class W> IOQ* mk2(int a, int b) { return new W((uint64_t)a, (uint64_t)b); }

using UP = std::unique_ptr<Tracked>;
using R1 = rc::EBR<0>;
using R2 = rc::HP_S<3, 0, 0>;
using R3 = rc::STAMP;
const Cfg cfgs[] = {
  {"ms<Tracked>/ebr0", 0, mk0<ValQ<xenium::michael_scott_queue<Tracked, xp::reclaimer<R1>>, false, false>>, false},
  {"ms<Tracked>/hp", 0, mk0<ValQ<xenium::michael_scott_queue<Tracked, xp::reclaimer<R2>>, false, false>>, false},
  {"ram<unique_ptr>/e1/ebr0", 0, mk0<UpQ<xenium::ramalhete_queue<UP, xp::reclaimer<R1>, xp::entries_per_node<1>, xp::pop_retries<0>>, false>>, false},
  {"ram<unique_ptr>/e2/hp", 0, mk0<UpQ<xenium::ramalhete_queue<UP, xp::reclaimer<R2>, xp::entries_per_node<2>, xp::pop_retries<1>>, false>>, false},
  {"ram<unique_ptr>/e2/stamp", 0, mk0<UpQ<xenium::ramalhete_queue<UP, xp::reclaimer<R3>, xp::entries_per_node<2>, xp::pop_retries<0>>, false>>, false},
  {"ram<raw>/e2/ebr0", 0, mk0<RawQ<xenium::ramalhete_queue<Tracked*, xp::reclaimer<R1>, xp::entries_per_node<2>, xp::pop_retries<0>>, false>>, false},
  {"ram<small>/e2/ebr0", 0, mk0<SmallQ<xenium::ramalhete_queue<Small, xp::reclaimer<R1>, xp::entries_per_node<2>, xp::pop_retries<0>>, false>>, false},
  {"nik<Tracked>/e2/ebr0", 0, mk0<ValQ<xenium::nikolaev_queue<Tracked, xp::reclaimer<R1>, xp::entries_per_node<2>, xp::pop_retries<0>>, false, false>>, false},
  {"nik<Tracked>/e1/hp", 0, mk0<ValQ<xenium::nikolaev_queue<Tracked, xp::reclaimer<R2>, xp::entries_per_node<1>, xp::pop_retries<1>>, false, false>>, false},
  {"nikb<Tracked>", 1, mk1<ValQ<xenium::nikolaev_bounded_queue<Tracked, xp::pop_retries<0>>, true, false>>, false},
  {"vyb<Tracked>", 1, mk1<ValQ<xenium::vyukov_bounded_queue<Tracked>, true, true>>, false},
  {"kfifo<unique_ptr>/ebr0", 2, mkk<UpQ<xenium::kirsch_kfifo_queue<UP, xp::reclaimer<R1>>, false>>, true},
  {"kfifo<unique_ptr>/hp", 2, mkk<UpQ<xenium::kirsch_kfifo_queue<UP, xp::reclaimer<R2>>, false>>, true},
  {"kfifo<raw>/ebr0", 2, mkk<RawQ<xenium::kirsch_kfifo_queue<Tracked*, xp::reclaimer<R1>>, false>>, true},
  {"bkfifo<unique_ptr>", 3, mk2<UpQ<xenium::kirsch_bounded_kfifo_queue<UP>, true>>, true},
};
constexpr int NCFG = sizeof(cfgs) / sizeof(cfgs[0]);

class OwnHarness : public Harness {
  IOQ* q = nullptr;
  int cur = 0;

public:
  const char* name() const override { return "own"; }
  int num_configs() const override { return NCFG; }
  const char* config_name(int i) const override { return cfgs[i].name; }
  const char* op_name(int k) const override { return k == OP_PUSH ? "push" : k == OP_POP ? "pop" : "inside"; }
  void generate(GenCtx& g, Program& p) override {
    p.config = (int)g.rng.below(NCFG);
    const Cfg& c = cfgs[p.config];
    if (c.kfifo && strcmp(g.mode, "C03") != 0) g.opt.W = 0; // D14
    int a = 0, b = 0;
    if (c.family == 1) a = g.rng.chance(50) ? 2 : 4;
    if (c.family == 2) a = g.rng.range(1, 2);
    if (c.family == 3) { a = g.rng.range(1, 2); b = g.rng.range(1, 3); }
    int prefill = (int)g.rng.below(5);
    p.params = {a, b, prefill};
    int nt = g.rng.range(1, g.rng.chance(20) ? 4 : 3);
    int next = prefill + 1;
    p.threads.resize(nt);
    int mix = (int)g.rng.below(3); // push heavy runs leave elements inside at destruction
    for (int t = 0; t < nt; t++) {
      int n = g.rng.range(1, g.tier ? 8 : 6);
      for (int i = 0; i < n; i++) {
        bool push = g.rng.chance(mix == 0 ? 50 : mix == 1 ? 75 : 35);
        if (push && next < 100)
          p.threads[t].ops.push_back(Op{OP_PUSH, next++, 0, 0});
        else
          p.threads[t].ops.push_back(Op{OP_POP, 0, 0, 0});
      }
    }
  }
  void do_push(int token) {
    op_begin(OP_PUSH, token, 0, 0, 0);
    int r = q->push(token);
    op_end(r);
  }
  void setup(const Program& p) override {
    cur = p.config;
    g_harness_deleting = false;
    memset(g_raw, 0, sizeof g_raw);
    q = cfgs[cur].make((int)p.params[0], (int)p.params[1]);
    for (int v = 1; v <= p.params[2]; v++) do_push(v);
  }
  void exec(int, const Op& op) override {
    if (op.kind == OP_PUSH)
      do_push((int)op.a);
    else {
      int tok = 0;
      op_begin(OP_POP, 0, 0, 0, 0);
      bool ok = q->pop(tok);
      op_end(ok, tok);
    }
  }
  void teardown(int) override {
    // destroy the queue with whatever is still inside
    delete q;
    q = nullptr;
    g_harness_deleting = true;
    for (int i = 0; i < 256; i++)
      if (g_raw[i]) {
        if (g_raw[i]->token != i) xsim::fail("raw-element-destroyed", "raw pointer element %d was destroyed or overwritten by the queue", i);
        delete g_raw[i];
      }
    int64_t first = -1;
    int64_t left = objs_born_not_dead(&first);
    note(OP_NOTE_INSIDE, left);
    if (left > 0) xsim::fail("leak", "%ld element(s) neither delivered nor destroyed after the queue was destroyed (e.g. token %ld)", (long)left, (long)first);
  }
  void check(CheckCtx& c) override {
    // conservation over the history: a token is delivered at most once and only if it was accepted
    int pushed[256] = {0}, popped[256] = {0};
    uint64_t sh = 1469598103934665603ULL;
    for (int i = 0; i < c.hist.n; i++) {
      const OpRec& o = c.hist.ops[i];
      if (o.status < 0) continue;
      sh = (sh ^ (uint64_t)(o.kind * 31 + o.status * 7 + o.r0)) * 1099511628211ULL;
      if (o.kind == OP_PUSH && (o.status == 1 || o.status == 3)) pushed[o.a & 255]++;
      if (o.kind == OP_POP && o.status == 1) {
        if (o.r0 <= 0 || o.r0 > 255) return c.fail("invented-value", "pop returned token %ld", (long)o.r0);
        popped[o.r0]++;
      }
    }
    for (int v = 0; v < 256; v++) {
      if (popped[v] > 1) return c.fail("duplicated-element", "token %d was delivered to %d consumers", v, popped[v]);
      if (popped[v] && !pushed[v]) return c.fail("rejected-value-delivered", "token %d was delivered although its push was rejected / never happened", v);
    }
    c.state_hash = sh;
  }
};
OwnHarness h;
struct Reg { Reg() { register_harness(&h); hx::register_reclaimer_probes(); xsim::fn_probe("nikolaev_queue: a pusher lost the race to append its node (steal_init_value)", "16steal_init_value", true); xsim::fn_pair_probe("k-FIFO: committed() of a pusher overlaps advance_head", "9committed", "12advance_head", true); xsim::fn_pair_probe("queue destructor-side: two pushes overlap", "4pushE", "4pushE", true); } } reg;
} // namespace
XSIM_MAIN()
