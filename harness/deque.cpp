// C12 — chase_work_stealing_deque: one owner (push/pop), 1..3 thieves (steal)
#include "common.hpp"
#include "lincheck.hpp"
#include <deque>
#include <xenium/chase_work_stealing_deque.hpp>
#include <xenium/detail/fixed_size_circular_array.hpp>

using namespace xsim;
namespace hx_deque {
enum { OP_PUSH = 1, OP_POP = 2, OP_STEAL = 3, OP_DRAIN = 4 };
int g_items[512];

struct IDQ {
  virtual ~IDQ() = default;
  virtual bool push(int v) = 0;
  virtual bool pop(int& v) = 0;
  virtual bool steal(int& v) = 0;
};
template <class D>
struct DQ : IDQ {
  D d;
  static int idx(int* p) {
    if (p < g_items || p >= g_items + 512) xsim::fail("foreign-item", "the deque returned a pointer (%p) that was never pushed", (void*)p);
    return (int)(p - g_items);
  }
  bool push(int v) override { return d.try_push(&g_items[v]); }
  bool pop(int& v) override {
    int* p = nullptr;
    bool ok = d.try_pop(p);
    if (ok) v = idx(p);
    return ok;
  }
  bool steal(int& v) override {
    int* p = nullptr;
    bool ok = d.try_steal(p);
    if (ok) v = idx(p);
    return ok;
  }
};
struct Cfg {
  const char* name;
  int fixed_cap;
  IDQ* (*make)();
};
template <class W> IDQ* mk() { return new W(); }
namespace xp = xenium::policy;
const Cfg cfgs[] = {
  {"deque/growing/cap2", 0, mk<DQ<xenium::chase_work_stealing_deque<int, xp::capacity<2>>>>},
  {"deque/growing/cap4", 0, mk<DQ<xenium::chase_work_stealing_deque<int, xp::capacity<4>>>>},
  // a growing container whose maximum capacity is reached (then it behaves like a full fixed container)
  {"deque/growing2max4", 4, mk<DQ<xenium::chase_work_stealing_deque<int, xp::container<xenium::detail::growing_circular_array<int, 2, 4>>>>>},
  {"deque/growing2max8", 8, mk<DQ<xenium::chase_work_stealing_deque<int, xp::container<xenium::detail::growing_circular_array<int, 2, 8>>>>>},
  {"deque/fixed4", 4, mk<DQ<xenium::chase_work_stealing_deque<int, xp::container<xenium::detail::fixed_size_circular_array<int, 4>>>>>},
};
constexpr int NCFG = 5;

struct DModel {
  using State = std::deque<int>;
  int fixed_cap = 0;
  const History* h = nullptr;
  std::vector<int> overlap;
  bool step(State& s, const OpRec& o) const {
    switch (o.kind) {
      case OP_PUSH:
        if (o.status == 1) {
          if (fixed_cap && (int)s.size() >= fixed_cap) return false;
          s.push_back((int)o.a);
          return true;
        }
        return fixed_cap && (int)s.size() >= fixed_cap;
      case OP_POP:
      case OP_DRAIN:
        if (o.status == 1) {
          if (s.empty() || s.back() != (int)o.r0) return false;
          s.pop_back();
          return true;
        }
        return s.empty();
      default: // steal
        if (o.status == 1) {
          if (s.empty() || s.front() != (int)o.r0) return false;
          s.pop_front();
          return true;
        }
        return s.empty() || overlap[&o - h->ops] > 0; // a steal may fail when it loses a race
    }
  }
  bool step_pending(State& s, const OpRec& o) const {
    if (o.kind == OP_PUSH) s.push_back((int)o.a);
    else if (!s.empty()) { if (o.kind == OP_STEAL) s.pop_front(); else s.pop_back(); }
    return true;
  }
  void key(const State& s, std::string& k) const {
    for (int v : s) { k.push_back((char)(v & 255)); k.push_back((char)(v >> 8)); }
  }
};

class DHarness : public Harness {
  IDQ* d = nullptr;

public:
  const char* name() const override { return "deque"; }
  int num_configs() const override { return NCFG; }
  const char* config_name(int i) const override { return cfgs[i].name; }
  const char* op_name(int k) const override {
    static const char* n[] = {"?", "try_push", "try_pop", "try_steal", "drain_pop"};
    return k >= 1 && k <= 4 ? n[k] : "?";
  }
  void generate(GenCtx& g, Program& p) override {
    p.config = (int)g.rng.below(NCFG);
    // sequential prefix: advances top/bottom far beyond the capacity before the concurrent phase
    int prefix = (int)g.rng.below(g.tier ? 120 : 61);
    int prefix_kind = (int)g.rng.below(2); // 0 push/steal pairs, 1 push/pop pairs
    int leave = (int)g.rng.below(cfgs[p.config].fixed_cap ? 4 : 6);
    p.params = {prefix, prefix_kind, leave};
    int nth = g.rng.range(1, g.tier ? 3 : 2);
    p.threads.resize(1 + nth);
    int next = prefix + leave + 1;
    int nown = g.rng.range(2, g.tier ? 10 : 7);
    int pushbias = (int)g.rng.below(3);
    for (int i = 0; i < nown; i++) {
      if (g.rng.chance(pushbias == 0 ? 50 : pushbias == 1 ? 75 : 35) && next < 500)
        p.threads[0].ops.push_back(Op{OP_PUSH, next++, 0, 0});
      else
        p.threads[0].ops.push_back(Op{OP_POP, 0, 0, 0});
    }
    for (int t = 1; t <= nth; t++) {
      int n = g.rng.range(1, g.tier ? 6 : 4);
      for (int i = 0; i < n; i++) p.threads[t].ops.push_back(Op{OP_STEAL, 0, 0, 0});
    }
  }
  void run(const Op& op) {
    int v = 0;
    switch (op.kind) {
      case OP_PUSH: {
        op_begin(OP_PUSH, op.a, 0, 0, OPF_LOCKFREE);
        bool ok = d->push((int)op.a);
        op_end(ok);
        break;
      }
      case OP_POP:
      case OP_DRAIN: {
        op_begin(op.kind, 0, 0, 0, OPF_LOCKFREE);
        bool ok = d->pop(v);
        op_end(ok, v);
        break;
      }
      default: {
        op_begin(OP_STEAL, 0, 0, 0, OPF_LOCKFREE);
        bool ok = d->steal(v);
        op_end(ok, v);
      }
    }
  }
  void setup(const Program& p) override {
    d = cfgs[p.config].make();
    int v = 1;
    for (int i = 0; i < p.params[0]; i++) {
      run(Op{OP_PUSH, v++, 0, 0});
      run(Op{p.params[1] ? OP_POP : OP_STEAL, 0, 0, 0});
    }
    for (int i = 0; i < p.params[2]; i++) run(Op{OP_PUSH, v++, 0, 0});
  }
  void exec(int, const Op& op) override { run(op); }
  void teardown(int) override {
    for (;;) {
      int before = 0;
      (void)before;
      int v = 0;
      op_begin(OP_DRAIN, 0, 0, 0, OPF_LOCKFREE);
      bool ok = d->pop(v);
      op_end(ok, v);
      if (!ok) break;
    }
    delete d;
    d = nullptr;
  }
  void check(CheckCtx& c) override {
    DModel m;
    m.fixed_cap = cfgs[c.prog.config].fixed_cap;
    m.h = &c.hist;
    m.overlap.assign(c.hist.n, 0);
    std::vector<int> ops;
    uint64_t sh = 1469598103934665603ULL;
    static int pushed[512], taken[512];
    memset(pushed, 0, sizeof pushed);
    memset(taken, 0, sizeof taken);
    for (int i = 0; i < c.hist.n; i++) {
      const OpRec& o = c.hist.ops[i];
      if (o.status < 0) continue;
      if (c.hist.weak && o.status == 0 && o.kind != OP_PUSH) continue; // empty answers are not part of C03 (see bqueues.cpp)
      ops.push_back(i);
      sh = (sh ^ (uint64_t)(o.kind * 31 + o.status * 7 + o.r0)) * 1099511628211ULL;
      if (o.kind == OP_PUSH) {
        if (o.status == 1) pushed[o.a & 511]++;
      } else if (o.status == 1) {
        if (o.r0 <= 0 || o.r0 >= 512) return c.fail("foreign-item", "an operation returned item %ld which was never pushed", (long)o.r0);
        taken[o.r0]++;
      }
    }
    for (int v = 0; v < 512; v++) {
      if (taken[v] > 1) return c.fail("duplicated-item", "item %d was handed out %d times", v, taken[v]);
      if (taken[v] && !pushed[v]) return c.fail("foreign-item", "item %d handed out but never pushed", v);
      if (pushed[v] && !taken[v]) return c.fail("lost-item", "item %d was pushed but never handed out (final drain included)", v);
    }
    // the sequential prefix is long: only the tail of the history needs the search, the prefix is replayed
    DModel::State st;
    size_t k = 0;
    while (k < ops.size() && c.hist.ops[ops[k]].tid == 0) {
      if (!m.step(st, c.hist.ops[ops[k]])) {
        std::vector<int> one{ops[k]};
        return c.fail("sequential-mismatch", "sequential prefix deviates from the reference deque at %s (model size %zu)",
                      describe_ops(c.hist, *this, one).c_str(), st.size());
      }
      k++;
    }
    std::vector<int> rest(ops.begin() + (long)k, ops.end());
    for (int i : rest)
      for (int j : rest)
        if (i != j && !c.hist.precedes(c.hist.ops[i], c.hist.ops[j]) && !c.hist.precedes(c.hist.ops[j], c.hist.ops[i])) m.overlap[i]++;
    check_linearizable(c, *this, m, st, rest, "not-linearizable");
    c.state_hash = sh;
  }
};
DHarness h;
struct Reg { Reg() { register_harness(&h); xsim::fn_probe("chase deque: grow executed", "4growE"); xsim::fn_pair_probe("chase deque: grow overlaps try_steal", "4growE", "9try_steal"); xsim::fn_pair_probe("chase deque: try_pop overlaps try_steal", "7try_pop", "9try_steal"); xsim::fn_pair_probe("chase deque: two try_steal overlap", "9try_steal", "9try_steal"); } } reg;
} // namespace hx_deque
XSIM_MAIN()
