#include "recl_common.hpp"
using namespace rh;
namespace hx_recl_a {
using hp_s1 = rc::HP_S<1, 0, 0>; using hp_s2 = rc::HP_S<2, 0, 0>; using hp_s3 = rc::HP_S<3, 2, 1>; using hp_s5 = rc::HP_S<5, 0, 1>;
using hp_d1 = rc::HP_D<1, 0, 0>; using hp_d2 = rc::HP_D<2, 2, 1>;
using he_s1 = rc::HE_S<1, 0, 0>; using he_s2 = rc::HE_S<2, 0, 0>; using he_s3 = rc::HE_S<3, 2, 1>; using he_s5 = rc::HE_S<5, 0, 1>;
using he_d1 = rc::HE_D<1, 0, 0>; using he_d2 = rc::HE_D<2, 2, 1>;
#define CFG(NAME, TYPE, LFRC, K, DYN, CYC, HP) {{NAME, LFRC, K, DYN, CYC, HP}, make_world<TYPE, LFRC>}
const ReclHarness::Cfg cfgs[] = {
  CFG("hp_s1_0_0", hp_s1, false, 1, false, 4, true),
  CFG("hp_s2_0_0", hp_s2, false, 2, false, 4, true),
  CFG("hp_s3_2_1", hp_s3, false, 3, false, 4, true),
  CFG("hp_s5_0_1", hp_s5, false, 5, false, 4, true),
  CFG("hp_d1_0_0", hp_d1, false, 1, true, 4, true),
  CFG("hp_d2_2_1", hp_d2, false, 2, true, 4, true),
  CFG("he_s1_0_0", he_s1, false, 1, false, 4, true),
  CFG("he_s2_0_0", he_s2, false, 2, false, 4, true),
  CFG("he_s3_2_1", he_s3, false, 3, false, 4, true),
  CFG("he_s5_0_1", he_s5, false, 5, false, 4, true),
  CFG("he_d1_0_0", he_d1, false, 1, true, 4, true),
  CFG("he_d2_2_1", he_d2, false, 2, true, 4, true),
};
ReclHarness h("recl_a", cfgs, sizeof(cfgs) / sizeof(cfgs[0]));
struct Reg { Reg() { xsim::register_harness(&h); xsim::probe_name(1, "hp_exhausted"); xsim::probe_name(3, "destructor run by the reclaimer unlinked and retired a shared object"); hx::register_reclaimer_probes(); } } reg;
} // namespace
XSIM_MAIN()
