#!/bin/bash
# usage: redemo.sh <id> [extra g++ flags]  - re-run only the demo part of the confirmation of seeded/<id> in a fresh scratch
# worktree (used when the first confirmation compiled the demo with wrong flags); rewrites the demo lines of confirm.txt
id=$1; shift
D=/verif/seeded/$id; WT=/tmp/wt_redemo_$id
git -C /repo worktree add --detach $WT HEAD >/dev/null 2>&1 || exit 2
cd /tmp && mkdir -p /tmp/redemo_$id && cd /tmp/redemo_$id
g++ -std=c++17 -O1 -g -pthread -I $WT "$@" $D/demo.cpp -o d0 2> build.log || echo "demo build (without) failed"
p=0; for i in 1 2 3; do timeout 600 ./d0 > d0.log 2>&1 && p=$((p+1)); done
git -C $WT apply $D/patch.diff || echo "patch does not apply"
g++ -std=c++17 -O1 -g -pthread -I $WT "$@" $D/demo.cpp -o d1 2>> build.log || echo "demo build (with) failed"
w=0; for i in 1 2 3; do timeout 300 ./d1 > d1.log 2>&1 || w=$((w+1)); done
grep -v "^demo " $D/confirm.txt > c.tmp
echo "demo with change (re-run in a fresh worktree, flags: ${*:-none}): failed $w of 3 runs: $(grep -m1 -i fail d1.log | cut -c1-150)" >> c.tmp
echo "demo without change (same re-run): passed $p of 3 runs" >> c.tmp
cp c.tmp $D/confirm.txt; cat $D/confirm.txt
git -C /repo worktree remove --force $WT; rm -rf /tmp/redemo_$id
