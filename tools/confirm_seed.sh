#!/bin/bash
# usage: confirm_seed.sh <id> [extra g++ flags for the demo]   (scratch worktree /tmp/wt_<id>, outputs /tmp/seed_<id>)
# Confirms a seeded change in its scratch worktree: patch == worktree diff, the existing gtest suite (already built
# there with the change) passes, the demo fails with the change and passes without it.
id=$1; shift
WT=/tmp/wt_$id; OUT=/tmp/seed_$id; R=$OUT/confirm.txt
: > $R
cd $WT || exit 2
if diff <(git diff -- xenium) $OUT/patch.diff >/dev/null; then echo "patch==worktree diff: yes" >> $R; else echo "patch==worktree diff: NO" >> $R; fi
git diff --stat -- xenium | tail -1 >> $R
if [ -x $WT/_build/gtest ]; then
  # make sure the binary is up to date with the patched headers
  cmake --build $WT/_build --target gtest -j4 > $OUT/confirm_build.log 2>&1
  $WT/_build/gtest --gtest_brief=1 > $OUT/confirm_gtest.log 2>&1; rc=$?
  echo "gtest with change: exit $rc; $(grep -E 'tests ran|PASSED|FAILED' $OUT/confirm_gtest.log | tr '\n' ' '); tsan reports: $(grep -c 'WARNING: ThreadSanitizer' $OUT/confirm_gtest.log)" >> $R
else
  echo "gtest with change: NO BUILD" >> $R
fi
cd $OUT
g++ -std=c++17 -O1 -g -pthread -I $WT "$@" demo.cpp -o demo_with 2> confirm_demo_build.log || echo "demo build (with) failed" >> $R
w=0; for i in 1 2 3; do timeout 300 ./demo_with > confirm_demo_with.log 2>&1; rc=$?; [ $rc -ne 0 ] && w=$((w+1)); done
echo "demo with change: failed $w of 3 runs (last exit $rc): $(grep -m1 -i 'fail' confirm_demo_with.log | cut -c1-150)" >> $R
git -C $WT apply -R $OUT/patch.diff
g++ -std=c++17 -O1 -g -pthread -I $WT "$@" demo.cpp -o demo_without 2>> confirm_demo_build.log || echo "demo build (without) failed" >> $R
p=0; for i in 1 2 3; do timeout 600 ./demo_without > confirm_demo_without.log 2>&1; rc=$?; [ $rc -eq 0 ] && p=$((p+1)); done
echo "demo without change: passed $p of 3 runs (last exit $rc)" >> $R
git -C $WT apply $OUT/patch.diff
rm -f demo_with demo_without
cat $R
