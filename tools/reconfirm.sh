#!/bin/bash
# usage: reconfirm.sh <id> [extra g++ flags]  - confirm a seeded change that is already under /verif/seeded/<id> in a fresh
# scratch worktree (built by mkwt.sh unless /tmp/wt_<id> exists), write seeded/<id>/confirm.txt, remove the worktree.
id=$1; shift
[ -d /tmp/wt_$id ] || /verif/tools/mkwt.sh $id >/dev/null || exit 2
mkdir -p /tmp/seed_$id
cp /verif/seeded/$id/patch.diff /verif/seeded/$id/demo.cpp /tmp/seed_$id/
git -C /tmp/wt_$id apply /tmp/seed_$id/patch.diff || exit 2
/verif/tools/confirm_seed.sh $id "$@" > /dev/null 2>&1
cp /tmp/seed_$id/confirm.txt /verif/seeded/$id/confirm.txt
cat /verif/seeded/$id/confirm.txt
git -C /repo worktree remove --force /tmp/wt_$id; git -C /repo worktree prune; rm -rf /tmp/seed_$id
