#!/usr/bin/env python3
"""Sensitivity self-test: apply hand-written breaking changes (DESIGN.md §7 'Mutants') one at a time to a scratch
worktree of /repo (never to /repo itself), run the owning property's quick check against that tree
(XSIM_REPO / XSIM_SCRATCH: binaries, evidence and replays go to the scratch directory), expect a VIOLATION.
usage: tools/mutants.py [name-substring ...]      (development aid; never part of a registered check)
"""
import os, re, subprocess, sys, time, json

SRC = "/repo"
REPO = "/tmp/xs_mut_wt"      # scratch worktree, removed at the end
SCRATCH = "/tmp/xs_mut_out"  # scratch binaries / evidence / replays, removed at the end
ROOT = "/verif"

# (name, property, file, old, new)  -- old/new use \n; CRLF files are handled transparently
M = [
 ("hp_no_fence_set_object", "C01", "xenium/reclamation/impl/hazard_pointer.hpp",
  "        // (4) - this seq_cst-fence enforces a total order with the seq_cst-fence (8)\n        XENIUM_THREAD_FENCE(std::memory_order_seq_cst);\n",
  "        // (4) - this seq_cst-fence enforces a total order with the seq_cst-fence (8)\n"),
 ("hp_acquire_no_revalidate", "C01", "xenium/reclamation/impl/hazard_pointer.hpp",
  "  } while (p1.get() != p2.get());\n\n  this->ptr = p2;",
  "  } while (false);\n\n  this->ptr = p2;"),
 ("ebr_free_after_two_epochs", "C01", "xenium/reclamation/generic_epoch_based.hpp",
  "static constexpr epoch_t number_epochs = 3;", "static constexpr epoch_t number_epochs = 2;"),
 ("ebr_scan_ignores_first_thread", "C01", "xenium/reclamation/impl/generic_epoch_based.hpp",
  "          return data.is_in_critical_region.load(memory_order) && data.local_epoch.load(memory_order) != epoch;",
  "          return data.is_in_critical_region.load(memory_order) && data.local_epoch.load(memory_order) + 1 < epoch;"),
 ("lfrc_acquire_no_second_load", "C01", "xenium/reclamation/impl/lock_free_ref_count.hpp",
  "    q->ref_count().fetch_add(RefCountInc, std::memory_order_acquire);\n\n    if (q == p.load(order)) {\n      return;\n    }\n  }",
  "    q->ref_count().fetch_add(RefCountInc, std::memory_order_acquire);\n\n    return;\n  }"),
 ("qsbr_inactive_inverted", "C01", "xenium/reclamation/impl/quiescent_state_based.hpp",
  "return data.local_epoch.load(memory_order) == old_epoch && data.is_active(memory_order);",
  "return data.local_epoch.load(memory_order) == old_epoch && !data.is_active(memory_order);"),
 ("abandon_drops_tail", "C02", "xenium/reclamation/detail/thread_block_list.hpp",
  "    auto* h = abandoned_retired_nodes.load(std::memory_order_relaxed);\n    do {\n      last->next = h;",
  "    auto* h = abandoned_retired_nodes.load(std::memory_order_relaxed);\n    last = obj;\n    do {\n      last->next = h;"),
 ("ebr_dtor_skips_slot", "C02", "xenium/reclamation/impl/generic_epoch_based.hpp",
  "    for (unsigned i = 0; i < number_epochs; ++i) {\n      if (!retire_lists[i].empty()) {\n        orphans[i].add(retire_lists[i].steal());",
  "    for (unsigned i = 1; i < number_epochs; ++i) {\n      if (!retire_lists[i].empty()) {\n        orphans[i].add(retire_lists[i].steal());"),
 ("orphan_adopt_load_store", "C02", "xenium/reclamation/detail/retire_list.hpp",
  "    return head.exchange(nullptr, std::memory_order_acquire);",
  "    auto* r = head.load(std::memory_order_acquire);\n    head.store(nullptr, std::memory_order_relaxed);\n    return r;"),
 ("ms_release_to_relaxed_link", "C03", "xenium/michael_scott_queue.hpp",
  "if (t->_next.compare_exchange_weak(null, n, std::memory_order_release, std::memory_order_relaxed)) {",
  "if (t->_next.compare_exchange_weak(null, n, std::memory_order_relaxed, std::memory_order_relaxed)) {"),
 ("deque_sc_to_acqrel", "C03", "xenium/chase_work_stealing_deque.hpp",
  "  _bottom.store(b, std::memory_order_seq_cst);", "  _bottom.store(b, std::memory_order_release);"),
 ("seqlock_no_acquire_fence", "C03", "xenium/seqlock.hpp",
  "  // (6) - this acquire-fence synchronizes-with the release-fence (7)\n  XENIUM_THREAD_FENCE(std::memory_order_acquire);",
  "  // (6) - this acquire-fence synchronizes-with the release-fence (7)\n"),
 # (ms_pop_no_head_recheck was equivalent - the head re-check in pop is an optimisation once both nodes are guarded:
 #  the final CAS on _head decides - and is gone)
 ("ram_invalidate_load", "C04", "xenium/ramalhete_queue.hpp",
  "    value = h->entries[idx].value.exchange(marked_value(nullptr, 1), std::memory_order_acquire);",
  "    value = h->entries[idx].value.load(std::memory_order_acquire);"),
 ("nik_no_finalize", "C04", "xenium/nikolaev_queue.hpp",
  "        _allocated_queue.finalize();\n        return false;", "        return false;"),
 ("vyukov_full_off_by_one", "C05", "xenium/vyukov_bounded_queue.hpp",
  "if (pos2 == pos && dequeue_pos.load(std::memory_order_relaxed) + index_mask + 1 == pos) {",
  "if (pos2 == pos && dequeue_pos.load(std::memory_order_relaxed) + index_mask == pos) {"),
 ("vyukov_seq_before_value", "C05", "xenium/vyukov_bounded_queue.hpp",
  "    assign_value(c->data, std::forward<Args>(args)...);\n    // (4) - this release-store synchronizes-with the acquire-load (1)\n    c->sequence.store(pos + 1, std::memory_order_release);",
  "    // (4) - this release-store synchronizes-with the acquire-load (1)\n    c->sequence.store(pos + 1, std::memory_order_release);\n    assign_value(c->data, std::forward<Args>(args)...);"),
 ("scq_threshold", "C05", "xenium/detail/nikolaev_scq.hpp",
  "      const auto threshold = static_cast<std::int64_t>(n + capacity - 1);",
  "      const auto threshold = static_cast<std::int64_t>(capacity - 1);"),
 ("kfifo_committed_always", "C06", "xenium/kirsch_kfifo_queue.hpp",
  "  if (value != segment->items()[index].value.load(std::memory_order_relaxed)) {\n    return true;\n  }",
  "  return true;"),
 ("kfifo_find_index_k_minus_1", "C06", "xenium/kirsch_kfifo_queue.hpp",
  "  for (size_t i = 0; i < k; i++) {\n    uint64_t index = ((random_index + i) % k);",
  "  for (size_t i = 0; i + 1 < k || i == 0; i++) {\n    uint64_t index = ((random_index + i) % k);"),
 ("kfifo_no_delete_remaining", "C07", "xenium/kirsch_kfifo_queue.hpp",
  "    seg->delete_remaining_items();\n", ""),
 ("nik_steal_init_no_moveback", "C07", "xenium/nikolaev_queue.hpp",
  "      value = std::move(data);\n      data.~T(); // NOLINT (use-after-move)\n      _free_queue.enqueue<false, false>(idx, entries_per_node, remap_shift);\n    }\n\n    bool try_push",
  "      data.~T(); // NOLINT (use-after-move)\n      _free_queue.enqueue<false, false>(idx, entries_per_node, remap_shift);\n    }\n\n    bool try_push"),
 # (two earlier C08 mutants were equivalent and are gone: dropping find()'s prev re-check is harmless because every
 #  modification CASes against an unmarked expected value, and comparing the hash in addition to the key changes nothing)
 ("hm_find_marked_start_no_restart", "C08", "xenium/harris_michael_list_based_set.hpp",
  "  info.next = info.prev->load(std::memory_order_relaxed);\n  if (info.next.mark() != 0) {",
  "  info.next = info.prev->load(std::memory_order_relaxed);\n  if (false) {"),
 ("hm_iter_plain_next", "C09", "xenium/harris_michael_list_based_set.hpp",
  "  while (next.mark() == 0 && !tmp_guard.acquire_if_equal(info.cur->next, next, std::memory_order_acquire)) {\n    next = info.cur->next.load(std::memory_order_relaxed);\n  }",
  "  if (next.mark() == 0) tmp_guard = guard_ptr(next);"),
 ("vmap_no_version_bump", "C10", "xenium/impl/vyukov_hash_map.hpp",
  "      unlocker.unlock(state.new_version(), std::memory_order_release);\n\n      free_extension_item(extension);\n      return true;",
  "      unlocker.unlock(state, std::memory_order_release);\n\n      free_extension_item(extension);\n      return true;"),
 ("vmap_iter_erase_no_second_bump", "C11", "xenium/impl/vyukov_hash_map.hpp",
  "    pos.current_bucket_state = locked_state.new_version().clear_lock();",
  "    pos.current_bucket_state = pos.current_bucket_state;"),
 ("deque_bottom_restore", "C12", "xenium/chase_work_stealing_deque.hpp",
  "      _bottom.store(t + 1, std::memory_order_relaxed);\n      result = item;", "      _bottom.store(t, std::memory_order_relaxed);\n      result = item;"),
 ("lr_wait_one_indicator", "C13", "xenium/left_right.hpp",
  "    wait_for_readers(next_idx);\n    _version_index.store(next_idx, std::memory_order_relaxed);\n    wait_for_readers(current_idx);",
  "    _version_index.store(next_idx, std::memory_order_relaxed);\n    wait_for_readers(current_idx);"),
 ("seqlock_distance_off_by_one", "C14", "xenium/seqlock.hpp",
  "    if (seq2 - seq < (2 * slots - 1)) {", "    if (seq2 - seq < (2 * slots + 1)) {"),
 ("hp_copy_assign_no_publish", "C15", "xenium/reclamation/impl/hazard_pointer.hpp",
  "  this->ptr = p.ptr;\n  hp->set_object(this->ptr.get());\n  return *this;", "  this->ptr = p.ptr;\n  return *this;"),
 ("ms_push_no_helping", "C16", "xenium/michael_scott_queue.hpp",
  "      _tail.compare_exchange_weak(expected, next, std::memory_order_release, std::memory_order_relaxed);\n      continue;\n    }\n\n    // Attempt to link in the new element.",
  "      continue;\n    }\n\n    // Attempt to link in the new element."),
 ("tbl_abandon_never_free", "C17", "xenium/reclamation/detail/thread_block_list.hpp",
  "      state.store(entry_state::free, std::memory_order_release);", "      state.store(entry_state::inactive, std::memory_order_release);"),
 ("hp_release_no_relink", "C18", "xenium/reclamation/impl/hazard_pointer.hpp",
  "        hp->set_link(hint);\n        hint = hp;\n        hp = nullptr;", "        hp->set_link(hint);\n        hp = nullptr;"),
]


def apply(path, old, new):
    data = open(path, "rb").read().decode("utf-8")
    crlf = "\r\n" in data
    o, n = (old.replace("\n", "\r\n"), new.replace("\n", "\r\n")) if crlf else (old, new)
    if data.count(o) != 1:
        return False
    open(path, "wb").write(data.replace(o, n).encode("utf-8"))
    return True


def main():
    sel = sys.argv[1:]
    results = []
    subprocess.run(["git", "-C", SRC, "worktree", "remove", "--force", REPO], capture_output=True)
    subprocess.run(["git", "-C", SRC, "worktree", "add", "--detach", REPO, "HEAD"], check=True, capture_output=True)
    try:
        run_all(sel, results)
    finally:
        subprocess.run(["git", "-C", SRC, "worktree", "remove", "--force", REPO], capture_output=True)
        subprocess.run(["rm", "-rf", SCRATCH])
    json.dump(results, open(os.path.join(ROOT, "tools", "mutants_last.json"), "w"), indent=1)


def run_all(sel, results):
    for name, prop, f, old, new in M:
        if sel and not any(s in name or s == prop for s in sel):
            continue
        path = os.path.join(REPO, f)
        subprocess.run(["git", "-C", REPO, "checkout", "--", "xenium"], check=True)
        if not apply(path, old, new):
            print("%-34s %s  PATCH DOES NOT APPLY" % (name, prop), flush=True)
            results.append((name, prop, "noapply", 0))
            continue
        t0 = time.time()
        env = dict(os.environ, XSIM_REPO=REPO, XSIM_SCRATCH=SCRATCH)
        r = subprocess.run([os.path.join(ROOT, "check"), prop, "quick"], capture_output=True, text=True, env=env)
        dt = time.time() - t0
        viol = [l for l in r.stdout.splitlines() if l.startswith("VIOLATION")]
        cls = re.findall(r"class=(\S+)", r.stdout)
        status = "CAUGHT" if r.returncode == 1 and viol else ("build/machinery" if r.returncode == 2 else "MISSED")
        print("%-34s %s  %-8s %5.0fs  %s" % (name, prop, status, dt, ",".join(sorted(set(cls)))[:80]), flush=True)
        results.append((name, prop, status, dt))
        subprocess.run(["git", "-C", REPO, "checkout", "--", "xenium"], check=True)


if __name__ == "__main__":
    main()
