#!/bin/bash
# usage: mkwt.sh <id> [--nobuild]  - scratch worktree /tmp/wt_<id> of /repo (HEAD) with the third-party sources the test-suite
# needs and, unless --nobuild, the repository's gtest binary built in /tmp/wt_<id>/_build (as the baseline does: Ninja,
# RelWithDebInfo, WITH_TSAN=ON). Output directory for a seeding agent: /tmp/seed_<id>.
id=$1
WT=/tmp/wt_$id
git -C /repo worktree add --detach $WT HEAD >/dev/null 2>&1 || exit 2
for d in gtest config json; do mkdir -p $WT/3rdParty/$d; cp -r /repo/3rdParty/$d/. $WT/3rdParty/$d/ 2>/dev/null; done
mkdir -p /tmp/seed_$id
if [ "$2" != "--nobuild" ]; then
  cmake -G Ninja -S $WT -B $WT/_build -DCMAKE_BUILD_TYPE=RelWithDebInfo -DWITH_TSAN=ON -DCMAKE_CXX_FLAGS=-Wno-error > $WT/_build.cfg.log 2>&1 || { echo "configure failed"; exit 2; }
  cmake --build $WT/_build --target gtest -j${MKWT_JOBS:-8} > $WT/_build.log 2>&1 || { echo "build failed"; tail -5 $WT/_build.log; exit 2; }
fi
echo $WT
