#!/bin/bash
# usage: process_seed.sh <id> PROP [PROP...]  - take a finished sub-agent seed from /tmp/seed_<id> (worktree /tmp/wt_<id>):
# copy it to /verif/seeded/<id>, confirm it in its worktree, run the checks against it (scratch mode), drop the worktree
id=$1; shift
mkdir -p /verif/seeded/$id
cp /tmp/seed_$id/patch.diff /tmp/seed_$id/demo.cpp /tmp/seed_$id/README.txt /verif/seeded/$id/
FLAGS=$(grep -m1 -o '^FLAGS:.*' /tmp/seed_$id/README.txt | sed 's/^FLAGS: *//; s/ *(.*$//; s/^none.*//')
/verif/tools/confirm_seed.sh $id $FLAGS > /dev/null 2>&1
cp /tmp/seed_$id/confirm.txt /verif/seeded/$id/confirm.txt
cat /verif/seeded/$id/confirm.txt
git -C /repo worktree remove --force /tmp/wt_$id; git -C /repo worktree prune
cd /verif && tools/seeded.py --scratch $id "$@" | tail -${#@}
