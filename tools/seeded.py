#!/usr/bin/env python3
"""Run the registered checks against a seeded breaking change kept under /verif/seeded/<id>/.

  tools/seeded.py <id> [PROP ...]     apply seeded/<id>/patch.diff to /repo, run ./check PROP quick for every PROP
                                      (default: the property named in meta.json / the id prefix), undo the patch,
                                      and record the outcome in seeded/<id>/meta.json ("checks").
The patch is never committed to /repo; the working tree is restored with `git -C /repo checkout -- .`."""
import json, os, re, subprocess, sys, time
ROOT = os.path.dirname(os.path.dirname(os.path.abspath(__file__)))
REPO = "/repo"

def sh(cmd, **kw):
    return subprocess.run(cmd, shell=True, text=True, capture_output=True, **kw)

def main():
    # --scratch: apply the patch to a scratch worktree of /repo and check that (XSIM_REPO / XSIM_SCRATCH) instead of
    # patching /repo's working tree; for running while other checks use /repo
    scratch = "--scratch" in sys.argv
    if scratch:
        sys.argv.remove("--scratch")
        global REPO
        src, REPO = REPO, "/tmp/xs_seed_wt_%d" % os.getpid()
        sh("git -C %s worktree add --detach %s HEAD" % (src, REPO))
        os.environ["XSIM_REPO"] = REPO
        os.environ["XSIM_SCRATCH"] = "/tmp/xs_seed_out_%d" % os.getpid()
        try:
            run()
        finally:
            sh("git -C %s worktree remove --force %s" % (src, REPO))
            sh("rm -rf " + os.environ["XSIM_SCRATCH"])
        return
    run()


def run():
    scratch = "XSIM_SCRATCH" in os.environ
    sid = sys.argv[1]
    d = os.path.join(ROOT, "seeded", sid)
    meta_p = os.path.join(d, "meta.json")
    meta = json.load(open(meta_p)) if os.path.exists(meta_p) else {"id": sid, "property": sid[:3]}
    props = sys.argv[2:] or [meta.get("property", sid[:3])]
    if sh("git -C %s status --porcelain -- xenium" % REPO).stdout.strip():
        sys.exit("refusing: /repo/xenium has uncommitted changes")
    r = sh("git -C %s apply %s" % (REPO, os.path.join(d, "patch.diff")))
    if r.returncode != 0:
        sys.exit("patch does not apply: " + r.stderr)
    results = meta.setdefault("checks", {})
    try:
        for p in props:
            t0 = time.time()
            env = dict(os.environ)
            tier = "quick"
            if "@" in p:  # PROP@RUNS: the quick command with a larger run budget (what the thorough tier reaches)
                p, runs = p.split("@")
                env["XSIM_RUNS"] = runs
                env["XSIM_TIME"] = env.get("XSIM_TIME", "600")
                tier = "quick with XSIM_RUNS=%s" % runs
            cmd_tier = "quick"
            if "!" in p:  # PROP!SECONDS: the thorough command with a time budget
                p, secs = p.split("!")
                env["XSIM_TIME"] = secs
                tier = "thorough with XSIM_TIME=%s" % secs
                cmd_tier = "thorough"
            r = sh("./check %s %s" % (p, cmd_tier), cwd=ROOT, env=env)
            viol = re.findall(r"^VIOLATION property=(\S+) replay=(\S+)", r.stdout, re.M)
            classes = sorted(set(re.findall(r"class=(\S+)", r.stdout + r.stderr)))
            vsuffix = "/" + os.environ["XSIM_VARIANTS"] if os.environ.get("XSIM_VARIANTS") else ""  # only these build variants (N = NDEBUG)
            key = p + vsuffix if tier == "quick" else (p + "@" + env["XSIM_RUNS"] if cmd_tier == "quick" else p + "!" + env["XSIM_TIME"])
            results[key] = {"tier": tier, "exit": r.returncode, "caught": bool(viol) and r.returncode == 1,
                          "violations": len(viol), "classes": classes, "wall_s": round(time.time() - t0, 1),
                          "repo_head": sh("git -C %s rev-parse --short HEAD" % REPO).stdout.strip()}
            print("%-28s %s %-7s %5.0fs %s" % (sid, key, "CAUGHT" if results[key]["caught"] else "MISSED",
                                                 time.time() - t0, ",".join(classes)), flush=True)
            if viol:
                # keep one replay file next to the patch as the witness
                src = os.path.normpath(os.path.join(ROOT, viol[0][1])) if not os.path.isabs(viol[0][1]) else viol[0][1]
                if os.path.exists(src):
                    dst = os.path.join(d, "witness-%s.json" % p)
                    open(dst, "w").write(open(src).read())
                    results[key]["witness"] = os.path.relpath(dst, ROOT)
    finally:
        sh("git -C %s checkout -- ." % REPO)
        # evidence and replay files written by these runs describe the patched tree: drop them
        if not scratch:
            sh("git checkout -- evidence replays; git clean -fdq replays", cwd=ROOT)
    json.dump(meta, open(meta_p, "w"), indent=1, sort_keys=True)
    open(meta_p, "a").write("\n")

if __name__ == "__main__":
    main()
