#!/bin/bash
# usage: build.sh <harness-name> <variant P|T|N>   -> bin/<harness>.<variant>
# Rebuilds from /repo's working tree; objects are cached by a hash of all inputs.
set -e
H=$1; V=${2:-P}
ROOT="$(cd "$(dirname "$0")" && pwd)"
REPO=${XSIM_REPO:-/repo}
BINDIR=${XSIM_SCRATCH:-$ROOT}/bin
mkdir -p $ROOT/build/cache $BINDIR
CXX=g++
RTFLAGS="-std=c++17 -O2 -g -fno-omit-frame-pointer -fno-exceptions -ftls-model=initial-exec -fno-pie"
HFLAGS="-std=c++17 -O1 -fno-inline -fno-omit-frame-pointer -g -fsanitize=thread --param tsan-instrument-func-entry-exit=0 -DXENIUM_VERIF -fno-pie -Wno-tsan -Wno-cpp -I$REPO -I$ROOT/xsim -I$ROOT/harness"
[ "$V" = "P" ] && HFLAGS="$HFLAGS -U__SANITIZE_THREAD__ -DXSIM_VARIANT_P"
# variant N: production memory orders and NDEBUG - what users ship; the library's own assertions are compiled out, so
# every verdict comes from the oracles of the harness and the monitors of the runtime
[ "$V" = "N" ] && HFLAGS="$HFLAGS -U__SANITIZE_THREAD__ -DXSIM_VARIANT_P -DNDEBUG"
WRAP="-Wl,--wrap=pthread_mutex_lock,--wrap=pthread_mutex_unlock,--wrap=pthread_mutex_trylock,--wrap=sched_yield,--wrap=__assert_fail"
rt_hash=$(cat $ROOT/xsim/*.cpp $ROOT/xsim/*.inc $ROOT/xsim/*.hpp | sha256sum | cut -c1-24)
RT=$ROOT/build/cache/rt-$rt_hash.o
if [ ! -f $RT ]; then
  $CXX $RTFLAGS -c $ROOT/xsim/rt.cpp -o $RT.tmp.$$ || exit 2
  mv $RT.tmp.$$ $RT
fi
src_hash=$( (cat $ROOT/harness/$H.cpp $ROOT/harness/*.hpp $ROOT/xsim/*.hpp; find $REPO/xenium -name '*.hpp' | sort | xargs cat; echo "$HFLAGS" | sed "s#$REPO#REPO#g") | sha256sum | cut -c1-24)
OBJ=$ROOT/build/cache/$H-$V-$src_hash.o
if [ ! -f $OBJ ]; then
  $CXX $HFLAGS -c $ROOT/harness/$H.cpp -o $OBJ.tmp.$$ || exit 2
  mv $OBJ.tmp.$$ $OBJ
fi
BIN=$BINDIR/$H.$V
STAMP=$BIN.link
if [ ! -f $BIN ] || [ "$(cat $STAMP 2>/dev/null)" != "$rt_hash-$src_hash-r1" ]; then
  $CXX -no-pie -rdynamic $OBJ $RT -o $BIN.tmp.$$ -lpthread -ldl $WRAP || exit 2
  mv $BIN.tmp.$$ $BIN
  echo "$rt_hash-$src_hash-r1" > $STAMP
fi
# the object cache grows with every variation of /repo that is built: keep what was used during the last two days
touch -c $OBJ $RT
find $ROOT/build/cache -type f -mtime +2 -delete 2>/dev/null || true
echo $BIN
