# property -> harness binaries, mode string, budgets. Single source for ./check and MANIFEST.json (mkmanifest.py).
REAL_VS_STUB = {
    "real": ["all of xenium (headers from /repo, compiled from the working tree)", "libstdc++ header code (std::vector, std::sort, std::optional, ...)",
             "thread_local construction/destruction (real pthreads, glibc TLS)", "C++ exceptions (bad_hazard_pointer_alloc)"],
    "simulated": ["thread scheduling (seeded scheduler, one released thread at a time)", "std::atomic loads/stores/RMWs/fences (view-based C++17 memory model)",
                  "operator new/delete (deterministic arena; freed blocks stay quarantined and poisoned, or - in half of the runs, reuse_pct - are handed out again LIFO by size: the ABA fault)", "std::mutex / sched_yield (left_right)",
                  "utils::random() (hook H1)", "hardware_pause() (hook H2, scheduler hint)", "compare_exchange_weak spurious failures"],
    "stubbed": ["none of the library is stubbed"],
}

HARNESS_INFO = {}

RECL = ["recl_a", "recl_b", "recl_c"]
QUEUES = ["queues_ms", "queues_ram", "queues_nik"]
HM = ["hmlist", "hmmap"]
ALL = RECL + QUEUES + ["bqueues", "kfifo", "own"] + HM + ["vmap", "deque", "lr", "seqlock"]

PROPS = {
    "C01": {"mode": "C01", "harnesses": RECL, "quick_s": 70, "quick_runs": 300000, "thorough_s": 900,
            "title": "no object destroyed while a guard_ptr protects it"},
    "C02": {"mode": "C02", "harnesses": RECL, "quick_s": 60, "quick_runs": 200000, "thorough_s": 900,
            "title": "retired objects destroyed exactly once, by their own deleter, never leaked"},
    "C03": {"mode": "C03", "harnesses": ALL, "quick_s": 70, "quick_runs": 250000, "thorough_s": 1200,
            "title": "race-free and robust to weak executions"},
    "C04": {"mode": "C04", "harnesses": QUEUES, "quick_s": 60, "quick_runs": 280000, "thorough_s": 600,
            "title": "michael_scott / ramalhete / nikolaev queues are linearizable FIFO queues"},
    "C05": {"mode": "C05", "harnesses": ["bqueues"], "quick_s": 50, "quick_runs": 600000, "thorough_s": 600,
            "title": "vyukov_bounded / nikolaev_bounded queues are linearizable bounded FIFOs"},
    "C06": {"mode": "C06", "harnesses": ["kfifo"], "quick_s": 60, "quick_runs": 500000, "thorough_s": 600,
            "title": "Kirsch k-FIFO queues conserve elements with at most k-1 overtaking"},
    "C07": {"mode": "C07", "harnesses": ["own"], "quick_s": 50, "quick_runs": 800000, "thorough_s": 600,
            "title": "queues own their elements: moved out or destroyed exactly once"},
    "C08": {"mode": "C08", "harnesses": HM, "quick_s": 60, "quick_runs": 500000, "thorough_s": 900,
            "title": "Harris-Michael list set and hash map are linearizable sets/maps"},
    "C09": {"mode": "C09", "harnesses": HM, "quick_s": 60, "quick_runs": 600000, "thorough_s": 900,
            "title": "Harris-Michael iterators stay valid and weakly consistent under updates"},
    "C10": {"mode": "C10", "harnesses": ["vmap"], "quick_s": 70, "quick_runs": 240000, "thorough_s": 900,
            "title": "vyukov_hash_map is a linearizable map incl. lock-free reads and resizing"},
    "C11": {"mode": "C11", "harnesses": ["vmap"], "quick_s": 70, "quick_runs": 300000, "thorough_s": 900,
            "title": "vyukov_hash_map iterators: exclusive traversal, erase(iterator), no lost locks"},
    "C12": {"mode": "C12", "harnesses": ["deque"], "quick_s": 60, "quick_runs": 800000, "thorough_s": 600,
            "title": "chase_work_stealing_deque hands out every pushed item exactly once"},
    "C13": {"mode": "C13", "harnesses": ["lr"], "quick_s": 50, "quick_runs": 800000, "thorough_s": 600,
            "title": "left_right: readers always see one consistent, fully updated instance"},
    "C14": {"mode": "C14", "harnesses": ["seqlock"], "quick_s": 60, "quick_runs": 800000, "thorough_s": 600,
            "title": "seqlock::load returns exactly some stored value, never torn or truncated"},
    "C15": {"mode": "C15", "harnesses": RECL, "quick_s": 60, "quick_runs": 200000, "thorough_s": 600,
            "title": "marked_ptr / concurrent_ptr / guard_ptr smart pointer algebra"},
    "C16": {"mode": "C16", "harnesses": ALL, "quick_s": 60, "quick_runs": 200000, "thorough_s": 900,
            "title": "lock-free operations finish in bounded solo steps"},
    "C17": {"mode": "C17", "harnesses": RECL, "quick_s": 60, "quick_runs": 80000, "thorough_s": 900,
            "title": "dynamic threads: bookkeeping recycled, exited threads never block or leak"},
    "C18": {"mode": "C18", "harnesses": ["recl_a"], "quick_s": 60, "quick_runs": 200000, "thorough_s": 600,
            "title": "hazard pointer / era slots: K available, exhaustion reported, reusable"},
}
