# property -> harness binaries, mode string, budgets. Extended as harnesses are written.
REAL_VS_STUB = {
    "real": ["all of xenium (headers from /repo, compiled from the working tree)", "libstdc++ header code (std::vector, std::sort, std::optional, ...)",
             "thread_local construction/destruction (real pthreads, glibc TLS)", "C++ exceptions (bad_hazard_pointer_alloc)"],
    "simulated": ["thread scheduling (seeded scheduler, one released thread at a time)", "std::atomic loads/stores/RMWs/fences (view-based C++17 memory model)",
                  "operator new/delete (deterministic arena, no reuse inside a run, quarantine + poison)", "std::mutex / sched_yield (left_right)",
                  "utils::random() (hook H1)", "hardware_pause() (hook H2, scheduler hint)", "compare_exchange_weak spurious failures"],
    "stubbed": ["none of the library is stubbed"],
}

HARNESS_INFO = {}

PROPS = {
    "C04": {"mode": "C04", "harnesses": ["queues_ms", "queues_ram", "queues_nik"], "variants": ["P", "T"], "quick_s": 20, "thorough_s": 600},
}
