// Wing–Gong / Lowe style linearizability checker with memoisation (DESIGN.md §5.3).
// Model concept:
//   struct M { using State = ...;
//              bool step(State&, const xsim::OpRec&) const;   // apply op if its recorded result is legal
//              void key(const State&, std::string& out) const; } // canonical serialisation for the memo
// Pending operations (no response) may be linearised with any result (Model::step_pending) or omitted.
#pragma once
#include "xsim.hpp"
#include <cstdio>
#include <string>
#include <unordered_set>
#include <vector>

namespace xsim {

struct OpSet {
  uint64_t w[4] = {0, 0, 0, 0};
  bool has(int i) const { return (w[i >> 6] >> (i & 63)) & 1; }
  void set(int i) { w[i >> 6] |= 1ull << (i & 63); }
  void clr(int i) { w[i >> 6] &= ~(1ull << (i & 63)); }
  bool covers(const OpSet& o) const {
    for (int k = 0; k < 4; k++)
      if (o.w[k] & ~w[k]) return false;
    return true;
  }
};

struct LinResult {
  bool ok = false;
  bool budget = false;
  uint64_t nodes = 0;
  int best_depth = 0;
  std::vector<int> best_order; // longest linearised prefix found (indices into history)
  std::vector<int> order;      // a witness linearisation if ok
};

template <class M>
class LinChecker {
  const History& h;
  const M& model;
  std::vector<int> ops; // indices into h.ops
  std::vector<OpSet> pred;
  OpSet required;
  std::unordered_set<std::string> memo;
  uint64_t max_nodes;
  LinResult res;
  std::vector<int> cur;

  bool dfs(OpSet done, typename M::State& st) {
    if (done.covers(required)) {
      res.order = cur;
      return true;
    }
    if (++res.nodes > max_nodes) {
      res.budget = true;
      return false;
    }
    std::string k((const char*)done.w, sizeof done.w);
    model.key(st, k);
    if (!memo.insert(k).second) return false;
    int n = (int)ops.size();
    for (int i = 0; i < n; i++) {
      if (done.has(i) || !done.covers(pred[i])) continue;
      const OpRec& o = h.ops[ops[i]];
      typename M::State s2 = st;
      bool legal = o.pending ? model.step_pending(s2, o) : model.step(s2, o);
      if (!legal) continue;
      OpSet d2 = done;
      d2.set(i);
      cur.push_back(ops[i]);
      if ((int)cur.size() > res.best_depth) {
        res.best_depth = (int)cur.size();
        res.best_order = cur;
      }
      if (dfs(d2, s2)) return true;
      cur.pop_back();
      if (res.budget) return false;
    }
    return false;
  }

public:
  LinChecker(const History& hist, const M& m, std::vector<int> op_indices, uint64_t budget = 2000000)
      : h(hist), model(m), ops(std::move(op_indices)), max_nodes(budget) {}

  LinResult run(typename M::State init) {
    int n = (int)ops.size();
    if (n > 250) {
      res.budget = true;
      return res;
    }
    pred.assign(n, OpSet());
    for (int i = 0; i < n; i++) {
      const OpRec& b = h.ops[ops[i]];
      if (!b.pending) required.set(i);
      for (int j = 0; j < n; j++)
        if (j != i && h.precedes(h.ops[ops[j]], b)) pred[i].set(j);
    }
    res.ok = dfs(OpSet(), init);
    return res;
  }
};

// textual rendering of a history fragment for violation reports
inline std::string describe_ops(const History& h, const Harness& hz, const std::vector<int>& idx, size_t max = 24) {
  std::string s;
  char b[160];
  for (size_t k = 0; k < idx.size() && k < max; k++) {
    const OpRec& o = h.ops[idx[k]];
    snprintf(b, sizeof b, "%sT%d:%s(%ld,%ld)->%d/%ld[%lu..%lu]", k ? " " : "", o.tid, hz.op_name(o.kind), (long)o.a, (long)o.b, o.status,
             (long)o.r0, (unsigned long)o.inv, (unsigned long)o.resp);
    s += b;
  }
  return s;
}

// report a linearizability failure through CheckCtx with a readable history
template <class M>
bool check_linearizable(CheckCtx& c, const Harness& hz, const M& model, typename M::State init, const std::vector<int>& ops,
                        const char* cls) {
  LinChecker<M> lc(c.hist, model, ops);
  LinResult r = lc.run(init);
  if (r.budget) {
    c.checker_budget = true;
    return true;
  }
  if (!r.ok) {
    std::vector<int> rest;
    for (int i : ops) {
      bool in = false;
      for (int j : r.best_order)
        if (i == j) in = true;
      if (!in) rest.push_back(i);
    }
    c.fail(cls, "history is not linearizable (%s precedence). longest legal prefix: {%s}; cannot place any of: {%s}",
           c.hist.weak ? "happens-before" : "real-time", describe_ops(c.hist, hz, r.best_order).c_str(),
           describe_ops(c.hist, hz, rest).c_str());
    return false;
  }
  return true;
}

} // namespace xsim
