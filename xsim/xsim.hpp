// xsim — deterministic simulator for xenium (public API used by harnesses).
// The runtime (rt.cpp) is compiled WITHOUT instrumentation; harness TUs are compiled with
// g++ -fsanitize=thread and linked against the runtime instead of libtsan.
#pragma once
#include <cstddef>
#include <cstdint>
#include <cstdarg>
#include <string>
#include <vector>

namespace xsim {

constexpr int MAXT = 24; // max simulated threads per run (vector clock width)

struct VC {
  uint32_t c[MAXT];
};

// ---------------------------------------------------------------------------------------------
// programs (generated on the controller from the run seed; data, so they can be stored and shrunk)
struct Op {
  int kind = 0;
  int64_t a = 0, b = 0, c = 0;
};

struct ThreadProg {
  std::vector<Op> ops;
  // start condition: thread becomes startable once thread `dep_thread` has completed `dep_ops`
  // operations (dep_ops < 0: has finished incl. its thread_local destructors). dep_thread < 0: at once.
  int dep_thread = -1;
  int dep_ops = 0;
  bool dep_hb = false; // finished dep + dep_hb: the end of dep_thread happens-before the start
};

struct Program {
  int config = 0;                 // index of the harness configuration (template instantiation)
  std::vector<int64_t> params;    // harness specific run-time parameters (sizes, k, ...)
  std::vector<ThreadProg> threads;
};

// swarm options of one run (all drawn from the run seed, stored in replay files)
// S_STALL: sticky scheduling plus stalls injected at a per-run pseudo-random subset of code sites (calling
// contexts of atomic operations): a thread reaching a selected site is held until other threads completed a
// few operations (or exited) - the "slow or stalled node" fault placed by code location, not by step count
enum Strategy { S_UNIFORM = 0, S_STICKY = 1, S_PCT = 2, S_BURST = 3, S_STALL = 4, S_NUM };
struct Options {
  int reuse_pct = 0;     // probability (percent) that an allocation reuses the most recently freed block of the same size
                         // (real allocators do: the ABA fault; 0 keeps every freed block quarantined for the whole run)
  int strategy = S_UNIFORM;
  int sticky_pct = 80;   // S_STICKY: probability (percent) to keep running the current thread
  int pct_depth = 2;     // S_PCT: number of priority change points
  int W = 0;             // staleness window in scheduling steps; 0 = sequentially consistent loads
  int spur_pct = 0;      // probability (percent) of a spurious compare_exchange_weak failure
  int rand_mode = 0;     // utils::random(): 0 uniform, 1 always 0, 2 always max, 3 repeat last
  int solo_probes = 0;   // C16: number of solo probes attempted in this run
  int step_cap = 40000;  // scheduling points before the run is drained fairly ("budget")
  int solo_bound = 20000;
  int plain_yield = 0;   // every k-th plain shared access is a scheduling point (0 = off)
  int weak_campaign = 0; // informational: this run belongs to the C03 campaign
};

// one recorded operation of the history
struct OpRec {
  int tid = 0;
  int kind = 0;
  int64_t a = 0, b = 0, c = 0;
  int64_t r0 = 0, r1 = 0;
  int status = 0;      // harness defined (e.g. 0 = fail/absent, 1 = success, 2 = exception)
  bool pending = true; // no response recorded (thread starved / run cut)
  bool overlapped = false; // some other thread executed a step between inv and resp
  uint64_t inv = 0, resp = 0; // global step numbers (total order)
  VC inv_vc, resp_vc;
};

struct History {
  const OpRec* ops = nullptr;
  int n = 0;
  bool weak = false; // W > 0: precedence is happens-before
  // does a precede b?
  bool precedes(const OpRec& a, const OpRec& b) const {
    if (a.pending) return false;
    if (a.tid == b.tid) return a.inv < b.inv;
    if (!weak) return a.resp < b.inv;
    return a.resp_vc.c[a.tid] <= b.inv_vc.c[a.tid];
  }
};

// ---------------------------------------------------------------------------------------------
// generator side PRNG (controller); the same class is used by the runtime
struct Rng {
  uint64_t s[4];
  void seed(uint64_t x);
  uint64_t next();
  uint64_t below(uint64_t n) { return n ? next() % n : 0; }
  bool chance(int pct) { return (int)below(100) < pct; }
  int range(int lo, int hi) { return lo + (int)below((uint64_t)(hi - lo + 1)); } // inclusive
};
uint64_t splitmix(uint64_t x);

// ---------------------------------------------------------------------------------------------
// harness interface
struct GenCtx {
  Rng& rng;
  Options& opt;       // common options already drawn (the harness may adjust them)
  int tier;           // 0 quick, 1 thorough
  const char* mode;   // property mode string passed on the command line ("C04", "C03", "C16", ...)
};

struct CheckCtx {
  History hist;
  const Program& prog;
  const Options& opt;
  const char* mode;
  // report a violation found by the history oracle (returns; first one wins)
  void fail(const char* cls, const char* fmt, ...) __attribute__((format(printf, 3, 4)));
  bool failed = false;
  std::string cls, detail;
  uint64_t state_hash = 0; // harness may fold an abstract-state hash here (coverage measure)
  bool checker_budget = false;
};

class Harness {
public:
  virtual ~Harness() = default;
  virtual const char* name() const = 0;
  virtual int num_configs() const = 0;
  virtual const char* config_name(int i) const = 0;
  // controller: draw harness specific options and thread programs
  virtual void generate(GenCtx& g, Program& p) = 0;
  // simulated thread 0: construct the structure under test
  virtual void setup(const Program& p) = 0;
  // simulated program thread: execute one operation (must call op_begin/op_end)
  virtual void exec(int thread_index, const Op& op) = 0;
  // called in the program thread after its last op (release guards etc.) before thread exit
  virtual void thread_end(int thread_index) { (void)thread_index; }
  // number of sequential teardown threads, run after all program threads have exited
  virtual int teardown_threads(const Program& p) { (void)p; return 1; }
  virtual void teardown(int k) = 0;
  // controller: oracle over the recorded history
  virtual void check(CheckCtx& c) = 0;
  // names for evidence / traces
  virtual const char* op_name(int kind) const { (void)kind; return "op"; }
};
void register_harness(Harness* h);

// ---------------------------------------------------------------------------------------------
// calls usable inside simulated threads
enum OpFlags { OPF_NONE = 0, OPF_LOCKFREE = 1 };
void op_begin(int kind, int64_t a = 0, int64_t b = 0, int64_t c = 0, int flags = OPF_NONE);
void op_end(int status, int64_t r0 = 0, int64_t r1 = 0);
// inside a composite operation (one op_begin/op_end around many library calls): the next library call begins; the
// solo-step rule for lock-free operations is applied per library call
void op_progress();
// record an auxiliary event in the history (no scheduling point), e.g. values found by a final drain
void note(int kind, int64_t a = 0, int64_t b = 0, int64_t c = 0);
int self();            // simulated thread id (0 = setup thread), -1 on the controller
int prog_index();      // index into Program::threads, -1 for setup/teardown threads
uint64_t now();        // global step counter
bool weak_run();       // W > 0
// violation from inside a run (never returns)
[[noreturn]] void fail(const char* cls, const char* fmt, ...) __attribute__((format(printf, 2, 3)));
// reach probes ("this rare condition was hit"); id < 64, name registered once
void probe(int id);
void probe_name(int id, const char* name);
// function reach probes: count the runs in which a function whose mangled symbol name contains every '&'-separated
// part of `pattern` was on the stack of a simulated thread at one of its scheduling points (fn_probe), or in which
// such a function was on the stack of one live simulated thread while a function matching patternB was on the stack
// of another one (fn_pair_probe: "A overlaps B"). Evaluated in a quarter of the runs; a pattern that matches no
// function of the binary is reported in the statistics as "<name> (UNRESOLVED)".
// optional: a probe whose pattern matches nothing in this binary is dropped silently (shared probe sets).
void fn_probe(const char* name, const char* pattern, bool optional = false);
void fn_pair_probe(const char* name, const char* patternA, const char* patternB, bool optional = false);
// type-stable memory (lock_free_ref_count): mark payload bytes dead / alive for the lifetime monitor
void mem_dead(const void* p, size_t n);
void mem_alive(const void* p, size_t n);
// is this address inside a live allocation?
bool mem_is_live(const void* p, size_t n);
// number of live arena allocations made by simulated threads in this run, and total count
size_t live_allocs();
size_t total_allocs();
size_t peak_live_threads();
// happens-before clock of the calling thread (for oracles that need it)
void get_clock(VC& out);
// attach a tag to the run; tags are appended to the detail of a violation ("{tags: a,b}") so that known
// findings can be keyed on a precondition that the harness observed at run time
void tag(const char* name);
// a harness level nondeterministic choice taken from the run's decision stream
uint64_t choose(uint64_t n);
// tell the scheduler that the calling thread cannot make progress right now
void yield_hint();

// object lifetime ledger (C01, C02, C07, C17): ids are small integers chosen by the harness
void obj_born(int64_t id, const void* addr, size_t size);
void obj_retired(int64_t id, int64_t deleter_id);
void obj_died(int64_t id, int64_t deleter_id); // deleter_id < 0: plain destructor
// calling thread's guard `slot` now protects id; via: 0 acquired from a concurrent_ptr, 1 copy of another guard,
// 2 copy of another guard made after the object had already been retired
void guard_add(int64_t id, int slot, int via = 0);
void guard_del(int64_t id, int slot);
bool obj_alive(int64_t id);
int obj_state(int64_t id); // 0 unknown, 1 born, 2 retired, 3 dead
int64_t objs_retired_not_dead(int64_t* first_id);
int64_t objs_born_not_dead(int64_t* first_id);

// entry point used by every harness binary
int main_entry(int argc, char** argv);

} // namespace xsim
