// minimal JSON value + parser + writer helpers (only what replay files need)
#pragma once
#include <cstdint>
#include <cstdio>
#include <cstdlib>
#include <cstring>
#include <map>
#include <string>
#include <vector>

namespace xjson {
struct Value {
  enum Kind { NUL, BOOL, INT, STR, ARR, OBJ } kind = NUL;
  long long i = 0;
  bool neg_u64 = false;
  unsigned long long u = 0;
  std::string s;
  std::vector<Value> a;
  std::vector<std::pair<std::string, Value>> o;
  const Value* get(const char* k) const {
    for (auto& p : o)
      if (p.first == k) return &p.second;
    return nullptr;
  }
  long long geti(const char* k, long long d = 0) const {
    const Value* v = get(k);
    return v && v->kind == INT ? v->i : d;
  }
  unsigned long long getu(const char* k, unsigned long long d = 0) const {
    const Value* v = get(k);
    return v && v->kind == INT ? v->u : d;
  }
  std::string gets(const char* k, const char* d = "") const {
    const Value* v = get(k);
    return v && v->kind == STR ? v->s : std::string(d);
  }
};

struct Parser {
  const char* p;
  const char* e;
  bool ok = true;
  void ws() {
    while (p < e && (*p == ' ' || *p == '\n' || *p == '\t' || *p == '\r')) p++;
  }
  Value parse() {
    Value v;
    ws();
    if (p >= e) {
      ok = false;
      return v;
    }
    if (*p == '{') {
      v.kind = Value::OBJ;
      p++;
      ws();
      if (p < e && *p == '}') {
        p++;
        return v;
      }
      while (ok) {
        ws();
        Value k = parse();
        if (k.kind != Value::STR) {
          ok = false;
          break;
        }
        ws();
        if (p >= e || *p != ':') {
          ok = false;
          break;
        }
        p++;
        Value x = parse();
        v.o.emplace_back(k.s, std::move(x));
        ws();
        if (p < e && *p == ',') {
          p++;
          continue;
        }
        if (p < e && *p == '}') {
          p++;
          break;
        }
        ok = false;
      }
    } else if (*p == '[') {
      v.kind = Value::ARR;
      p++;
      ws();
      if (p < e && *p == ']') {
        p++;
        return v;
      }
      while (ok) {
        v.a.push_back(parse());
        ws();
        if (p < e && *p == ',') {
          p++;
          continue;
        }
        if (p < e && *p == ']') {
          p++;
          break;
        }
        ok = false;
      }
    } else if (*p == '"') {
      v.kind = Value::STR;
      p++;
      while (p < e && *p != '"') {
        if (*p == '\\' && p + 1 < e) {
          p++;
          char c = *p;
          if (c == 'n')
            v.s += '\n';
          else if (c == 't')
            v.s += '\t';
          else
            v.s += c;
        } else
          v.s += *p;
        p++;
      }
      if (p < e) p++;
    } else if (*p == '-' || (*p >= '0' && *p <= '9')) {
      v.kind = Value::INT;
      char* end;
      if (*p == '-') {
        v.i = strtoll(p, &end, 10);
        v.u = (unsigned long long)v.i;
      } else {
        v.u = strtoull(p, &end, 10);
        v.i = (long long)v.u;
      }
      p = end;
    } else if (!strncmp(p, "true", 4)) {
      v.kind = Value::BOOL;
      v.i = 1;
      p += 4;
    } else if (!strncmp(p, "false", 5)) {
      v.kind = Value::BOOL;
      p += 5;
    } else if (!strncmp(p, "null", 4)) {
      p += 4;
    } else
      ok = false;
    return v;
  }
};

inline bool parse_file(const char* path, Value& out) {
  FILE* f = fopen(path, "rb");
  if (!f) return false;
  std::string s;
  char buf[65536];
  size_t n;
  while ((n = fread(buf, 1, sizeof buf, f)) > 0) s.append(buf, n);
  fclose(f);
  Parser ps{s.data(), s.data() + s.size()};
  out = ps.parse();
  return ps.ok;
}

inline std::string esc(const std::string& s) {
  std::string r;
  for (char c : s) {
    if (c == '"' || c == '\\') {
      r += '\\';
      r += c;
    } else if (c == '\n')
      r += "\\n";
    else if ((unsigned char)c < 0x20)
      r += ' ';
    else
      r += c;
  }
  return r;
}
} // namespace xjson
