// xsim runtime — compiled WITHOUT -fsanitize=thread. See DESIGN.md §3.
#include "xsim.hpp"
#include "json.hpp"

#include <cerrno>
#include <csignal>
#include <cstdio>
#include <cstdlib>
#include <cstring>
#include <ctime>
#include <new>
#include <string>
#include <vector>

#include <cxxabi.h>
#include <dlfcn.h>
#include <execinfo.h>
#include <linux/futex.h>
#include <pthread.h>
#include <sched.h>
#include <sys/mman.h>
#include <sys/syscall.h>
#include <sys/wait.h>
#include <unistd.h>

namespace xsim {
#include "rt_base.inc"
#include "rt_fnprobe.inc"
#include "rt_sched.inc"
#include "rt_mem.inc"
} // namespace xsim

using namespace xsim;
#include "rt_abi.inc"

namespace xsim {
#include "rt_run.inc"
#include "rt_main.inc"
} // namespace xsim
