#!/usr/bin/env python3
"""Regenerates MANIFEST.json from props.py (run after changing the property table)."""
import json, subprocess, sys
sys.path.insert(0, "/verif")
from props import PROPS
props = [json.loads(l) for l in open("/verif/properties.jsonl")]
hooks = subprocess.run(["git", "-C", "/repo", "log", "--format=%H %s"], capture_output=True, text=True).stdout.splitlines()
hook_commits = [l.split()[0] for l in hooks if "verif hook" in l]
NOTES = {
}
checks = []
for p in props:
    pid = p["id"]
    if pid not in PROPS:
        continue
    s = PROPS[pid]
    checks.append({
        "property_id": pid,
        "quick_cmd": "./check %s quick" % pid,
        "thorough_cmd": "./check %s thorough" % pid,
        "evidence_file": "/verif/evidence/%s.json" % pid,
        "replay_cmd_template": "./check replay {path}",
        "engine": "xsim",
        "technique": "deterministic simulation: seeded search over schedules, read-from choices and faults; " + s.get("oracle", "history and monitor oracles"),
        "level_claimed": {
            "category": "exploration",
            "text": s.get("level_text", "Seeded random exploration of thread interleavings, weak-memory read-from choices, spurious CAS failures and thread "
                    "exits of the real xenium code under the xsim runtime; oracles run during every simulated run and over its recorded history. "
                    "A clean batch is evidence bounded by the measured reach (runs, distinct schedules, probes), not a proof."),
            "design_ref": "DESIGN.md §7 " + pid,
        },
        "level_note": s.get("level_note", "Trusted: the xsim runtime (scheduler, memory model checked by the litmus self-test, race/lifetime monitor), g++ 12 -O1, "
                            "the harness and its sequential reference model. Configurations are the finite list compiled into the harness binaries; "
                            "weak executions are a sound subset of C++17-consistent executions."),
    })
na = []
for p in props:
    if p["id"] not in PROPS:
        na.append({"property_id": p["id"], "reason": NOTES.get(p["id"], "check under construction in this round (harness not yet registered); the technique applies, see DESIGN.md §7")})
m = {
    "version": 1,
    "setup_cmd": "./check build",
    "hooks": {
        "guard": "XENIUM_VERIF",
        "enable": "harness translation units are compiled with -DXENIUM_VERIF -I/repo (see build.sh); the library is header-only",
        "baseline_off_cmd": "cmake --build /repo/_build --target gtest && ctest --test-dir /repo/_build -j8 --timeout 900",
        "source_commits": hook_commits,
        "add_only": True,
    },
    "engines": [{"name": "xsim", "path": "/verif/xsim", "serves_properties": sorted(PROPS.keys()),
                 "kind_free_text": "deterministic simulator: real pthreads released one at a time at every atomic access (TSan ABI seam), "
                                   "seeded scheduler strategies (uniform/sticky/PCT/burst/stall injection at code sites/solo probes), view-based C++17 weak memory model, "
                                   "vector-clock data-race + lifetime monitor, deterministic arena heap with optional block reuse (ABA fault), replay + ddmin minimiser"}],
    "checks": checks,
    "not_applicable": na,
    "notes": "All checks: ./check <ID> quick|thorough, exit 0/1/2 (2 = machinery failure, e.g. litmus self-test or determinism gate). "
             "VERIF_SEED and VERIF_TIER are honoured. Known findings: known_findings.txt.",
}
json.dump(m, open("/verif/MANIFEST.json", "w"), indent=1)
print("MANIFEST.json: %d checks, %d not_applicable" % (len(checks), len(na)))
